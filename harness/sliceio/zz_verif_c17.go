//go:build verif

package sliceio

import (
	"context"

	"github.com/grailbio/bigslice/frame"
	zz "github.com/grailbio/bigslice/internal/zzverif"
)

// zzH_C17_multiReader: the concatenating reader delivers exactly the
// concatenation of its inputs, for every chunking of the inputs (including
// empty reads and EOF delivered together with rows) and every sequence of
// destination sizes.
func zzH_C17_multiReader() { zzMultiHarness(2, 2, 4, 2, false) }
func zzH_C17_multiReader_deep() { zzMultiHarness(3, 2, 5, 2, true) }

func zzMultiHarness(nr, maxRows, calls, maxDst int, withErr bool) {
	var rs []ReadCloser
	var ms []*ZZModelReader
	var keys, vals []int64
	for i := 0; i < nr; i++ {
		n := zz.AnyIntIn("rows", 0, maxRows)
		m := ZZNewModel("in", n)
		m.MaxEmpty = 1
		ms = append(ms, m)
		rs = append(rs, m)
		keys = append(keys, m.Keys...)
		vals = append(vals, m.Vals...)
	}
	if withErr && zz.AnyBool("injectError") {
		w := zz.AnyIntIn("errReader", 0, nr-1)
		ms[w].FailAt = zz.AnyIntIn("errAt", 0, len(ms[w].Keys))
	}
	r := MultiReader(rs...)
	d := ZZDriveReader(r, calls, 1, maxDst, "dst")
	d.ZZExpect(keys, vals, "MultiReader")
	if d.Err != nil && d.Err != EOF {
		zz.Reach("upstream error surfaced")
		zz.Assert(d.Err == ZZErrUpstream, "an input's error is returned as is")
		n2, err2 := r.Read(context.Background(), frame.Slices(make([]int64, 1), make([]int64, 1)))
		zz.Assert(n2 == 0 && err2 == ZZErrUpstream, "error is sticky")
	}
	if d.Err == EOF {
		for _, m := range ms {
			zz.Assert(m.Closed, "every exhausted input is closed")
		}
	}
	zz.Assert(r.Close() == nil, "Close succeeds")
	for _, m := range ms {
		zz.Assert(m.Closed, "Close closes every input")
	}
}

// zzH_C17_frameReader: FrameReader delivers the frame's rows for every
// sequence of destination sizes.
func zzH_C17_frameReader() {
	n := zz.AnyIntIn("rows", 0, 4)
	m := ZZNewModel("f", n)
	// a view with an offset into a larger store
	a := zz.AnyIntIn("a", 0, n)
	r := FrameReader(frame.Slices(m.Keys, m.Vals).Slice(a, n))
	d := ZZDriveReader(r, 4, 1, 3, "dst")
	d.ZZExpect(m.Keys[a:], m.Vals[a:], "FrameReader")
	if a > 0 {
		zz.Reach("view with offset > 0")
	}
}

// zzH_C17_readFull: ReadFull fills the frame unless the stream ends.
func zzH_C17_readFull() {
	n := zz.AnyIntIn("rows", 0, 4)
	m := ZZNewModel("in", n)
	m.MaxEmpty = 1
	ln := zz.AnyIntIn("len", 0, 3)
	bk, bv := make([]int64, ln+1), make([]int64, ln+1)
	for i := range bk {
		bk[i], bv[i] = ZZSentinel, ZZSentinel
	}
	got, err := ReadFull(context.Background(), m, frame.Slices(bk, bv).Slice(0, ln))
	want := ln
	if n < want {
		want = n
	}
	if err == nil {
		zz.Assert(got == ln, "ReadFull without error fills the frame")
	} else {
		zz.Assert(err == EOF, "ReadFull reports only the upstream's error")
		zz.Reach("short read at EOF")
	}
	zz.Assert(got == want || (err == nil && got == ln), "ReadFull reads min(len, available) rows")
	for i := 0; i < got && i < n; i++ {
		zz.Assert(zz.And(bk[i] == m.Keys[i], bv[i] == m.Vals[i]), "ReadFull delivers the stream's rows in order")
	}
	zz.Assert(bk[ln] == ZZSentinel, "ReadFull does not write beyond the frame")
}

// zzH_C17_closingReader: ClosingReader passes rows through and closes the
// input exactly when a read fails or ends.
func zzH_C17_closingReader() {
	n := zz.AnyIntIn("rows", 0, 3)
	m := ZZNewModel("in", n)
	m.MaxEmpty = 1
	if zz.AnyBool("injectError") {
		m.FailAt = zz.AnyIntIn("errAt", 0, n)
	}
	r := NewClosingReader(m)
	d := ZZDriveReader(r, 4, 1, 2, "dst")
	d.ZZExpect(m.Keys, m.Vals, "ClosingReader")
	zz.Assert(m.Closed == (d.Err != nil), "the input is closed exactly when a read returned an error or EOF")
}

// zzH_C17_scanner: a scanner yields each row exactly once in order, ends with
// a nil error, and rejects destinations of the wrong arity or type with an
// error without consuming a row. Scanv delivers the same rows in batches.
func zzH_C17_scanner() {
	old := defaultChunksize
	defaultChunksize = 2
	defer func() { defaultChunksize = old }()
	n := zz.AnyIntIn("rows", 0, 3)
	m := ZZNewModel("in", n)
	m.MaxEmpty = 1
	ctx := context.Background()
	mode := zz.AnyIntIn("mode", 0, 4)
	if mode == 4 {
		m.FailAt = zz.AnyIntIn("failAt", 0, n)
		m.FailWithRows = true
	}
	sc := NewScanner(frame.Slices(m.Keys, m.Vals), m)
	var k, v int64
	switch mode {
	case 0: // plain scan
		i := 0
		for sc.Scan(ctx, &k, &v) {
			zz.Assert(i < n, "no more rows than the stream holds")
			if i >= n {
				return
			}
			zz.Assert(zz.And(k == m.Keys[i], v == m.Vals[i]), "Scan yields the rows once each, in order")
			i++
		}
		zz.Assert(i == n, "Scan yields every row")
		zz.Assert(sc.Err() == nil, "scanning ends with a nil error")
		zz.Assert(!sc.Scan(ctx, &k, &v), "Scan stays false after the end")
		if n >= 2 {
			zz.Reach("scanned 2+ rows")
		}
	case 1, 2: // wrong arity / wrong type, possibly after some good scans
		maxGood := n
		if maxGood > 2 {
			maxGood = 2
		}
		good := zz.AnyIntIn("goodScansFirst", 0, maxGood)
		for i := 0; i < good; i++ {
			zz.Assert(sc.Scan(ctx, &k, &v), "a good Scan succeeds")
			zz.Assert(zz.And(k == m.Keys[i], v == m.Vals[i]), "Scan yields the rows once each, in order")
		}
		if good > 0 {
			zz.Reach("bad destination after good scans")
		}
		reads := m.Reads
		if mode == 1 {
			zz.Assert(!sc.Scan(ctx, &k), "wrong arity is rejected")
			zz.Assert(sc.Err() != nil, "wrong arity is reported as an error")
			zz.Reach("arity rejected")
		} else {
			var s string
			zz.Assert(!sc.Scan(ctx, &k, &s), "wrong column type is rejected")
			zz.Assert(sc.Err() != nil, "wrong column type is reported as an error")
			zz.Reach("type rejected")
		}
		zz.Assert(m.Reads == reads, "no row is consumed by a rejected Scan")
		zz.Assert(!sc.Scan(ctx, &k, &v), "the scanner stays failed after a rejected Scan")
	case 4: // the input fails, possibly reporting rows together with the error
		i := 0
		for sc.Scan(ctx, &k, &v) {
			zz.Assert(i < n, "no more rows than the stream holds")
			if i >= n {
				return
			}
			zz.Assert(zz.And(k == m.Keys[i], v == m.Vals[i]), "Scan yields the rows once each, in order")
			i++
		}
		if m.Failed() {
			zz.Reach("input failed")
			zz.Assert(sc.Err() != nil, "a read error of the input is reported by Err, not turned into a clean end")
			zz.Assert(!sc.Scan(ctx, &k, &v), "the scanner stays failed after an input error")
		} else {
			zz.Assert(i == n && sc.Err() == nil, "scanning ends with a nil error")
		}
	case 3: // Scanv
		var gk, gv []int64
		for c := 0; c < 4; c++ {
			bk, bv := make([]int64, 2), make([]int64, 2)
			got, more := sc.Scanv(ctx, bk, bv)
			gk, gv = append(gk, bk[:got]...), append(gv, bv[:got]...)
			if !more {
				break
			}
		}
		zz.Assert(len(gk) == n, "Scanv yields every row")
		ok := true
		for i := range gk {
			if i < n {
				ok = zz.And(ok, zz.And(gk[i] == m.Keys[i], gv[i] == m.Vals[i]))
			}
		}
		zz.Assert(ok, "Scanv yields the rows once each, in order")
		zz.Assert(sc.Err() == nil, "scanning ends with a nil error")
		zz.Reach("scanv")
	}
}
