//go:build verif

package sliceio

import (
	"context"
	"errors"

	"github.com/grailbio/bigslice/frame"
	zz "github.com/grailbio/bigslice/internal/zzverif"
)

// Shared harness library: a model upstream Reader with solver-chosen chunking
// and a driver that reads any Reader with solver-chosen destination sizes while
// asserting the Reader contract. Rows have two int64 columns.

// ZZSentinel fills destination rows before each Read.
const ZZSentinel = int64(-7777)

var ZZErrUpstream = errors.New("zz: upstream read error")

// ZZModelReader serves the ghost stream (Keys, Vals) in arbitrary chunks.
type ZZModelReader struct {
	Keys, Vals []int64
	Tag        string
	MaxEmpty   int  // maximum number of consecutive (0, nil) reads
	NoEOFData  bool // never return EOF together with rows
	Deterministic bool // always serve as many rows as fit (no chunking choice)
	FailAt     int  // if >= 0: once FailAt rows were delivered, Read fails
	FailWith   error // the error returned at FailAt (default ZZErrUpstream)
	FailWithRows bool // the failing Read may also report rows (n > 0 together with the error), as ScanReader does
	PanicAt    int  // if > 0: once PanicAt-1 rows were delivered, Read panics
	PanicValue interface{}
	Panicked   bool
	pos        int
	empties    int
	final      error
	Closed     bool
	Reads      int
}

// ZZNewModel makes a model reader over n rows with symbolic cells.
func ZZNewModel(tag string, n int) *ZZModelReader {
	m := &ZZModelReader{Tag: tag, FailAt: -1, Keys: make([]int64, n), Vals: make([]int64, n)}
	for i := 0; i < n; i++ {
		m.Keys[i] = zz.AnyInt64(tag + "_key")
		m.Vals[i] = zz.AnyInt64(tag + "_val")
	}
	return m
}

func (m *ZZModelReader) Close() error { m.Closed = true; return nil }

// Failed reports whether the injected error was actually returned to a caller.
func (m *ZZModelReader) Failed() bool { return m.final != nil && m.final != EOF }

func (m *ZZModelReader) Read(ctx context.Context, out frame.Frame) (int, error) {
	m.Reads++
	if m.final != nil {
		return 0, m.final
	}
	if m.PanicAt > 0 && m.pos >= m.PanicAt-1 {
		m.Panicked = true
		panic(m.PanicValue)
	}
	if m.FailAt >= 0 && m.pos >= m.FailAt {
		m.final = ZZErrUpstream
		if m.FailWith != nil {
			m.final = m.FailWith
		}
		return 0, m.final
	}
	if m.FailWithRows && m.FailAt >= 0 && m.FailAt-m.pos <= out.Len() && m.FailAt > m.pos && zz.AnyBool(m.Tag+"_errWithRows") {
		// the rows up to the failure point arrive together with the error
		n := m.FailAt - m.pos
		frame.Copy(out, frame.Slices(m.Keys[m.pos:m.pos+n], m.Vals[m.pos:m.pos+n]))
		m.pos += n
		m.final = ZZErrUpstream
		if m.FailWith != nil {
			m.final = m.FailWith
		}
		zz.Reach("upstream error together with rows")
		return n, m.final
	}
	rem := len(m.Keys) - m.pos
	if m.FailAt >= 0 && m.FailAt-m.pos < rem {
		rem = m.FailAt - m.pos
	}
	if m.PanicAt > 0 && m.PanicAt-1-m.pos < rem {
		rem = m.PanicAt - 1 - m.pos
	}
	max := out.Len()
	if rem < max {
		max = rem
	}
	lo := 0
	if m.empties >= m.MaxEmpty && max > 0 {
		lo = 1
	}
	n := max
	if !m.Deterministic {
		n = zz.AnyIntIn(m.Tag+"_n", lo, max)
	}
	if n > 0 {
		frame.Copy(out, frame.Slices(m.Keys[m.pos:m.pos+n], m.Vals[m.pos:m.pos+n]))
	}
	m.pos += n
	if n == 0 {
		m.empties++
	} else {
		m.empties = 0
	}
	if m.pos == len(m.Keys) {
		if n == 0 && out.Len() > 0 || n == 0 && m.empties > m.MaxEmpty {
			m.final = EOF
			return 0, EOF
		}
		if !m.NoEOFData && zz.AnyBool(m.Tag+"_eofWithRows") {
			if n > 0 {
				zz.Reach("upstream EOF together with rows")
			}
			m.final = EOF
			return n, EOF
		}
	}
	return n, nil
}

// ZZDrive is the result of driving a reader.
type ZZDrive struct {
	Keys, Vals []int64
	Err        error
	kept       [][]int64 // the destination key columns the caller kept
	keptN      []int
}

// ZZDriveReader calls r.Read up to k times with solver-chosen destination
// sizes in [minDst, maxDst], asserting the Reader contract at every call.
func ZZDriveReader(r Reader, k, minDst, maxDst int, tag string) *ZZDrive {
	return ZZDriveReaderOpt(r, k, minDst, maxDst, tag, "")
}

// ZZDriveReaderOpt is ZZDriveReader; if tailLabel is non-empty, the check
// that destination rows beyond n are untouched is asserted under that label
// (for readers with a recorded finding about exactly that).
func ZZDriveReaderOpt(r Reader, k, minDst, maxDst int, tag, tailLabel string) *ZZDrive {
	d := &ZZDrive{}
	ctx := context.Background()
	for c := 0; c < k; c++ {
		ln := zz.AnyIntIn(tag+"_dst", minDst, maxDst)
		bk, bv := make([]int64, ln+2), make([]int64, ln+2)
		for i := range bk {
			bk[i], bv[i] = ZZSentinel, ZZSentinel
		}
		dst := frame.Slices(bk, bv).Slice(1, 1+ln)
		n, err := r.Read(ctx, dst)
		zz.Assert(n >= 0 && n <= ln, "Read returns between 0 and len(dst) rows")
		if n < 0 || n > ln {
			return d
		}
		for i := 0; i < len(bk); i++ {
			// rows outside the destination are never written; rows of the
			// destination beyond n are not written by a successful read (the
			// contents of dst after a failed read are unspecified)
			if i < 1 || i >= 1+ln || (i >= 1+n && (err == nil || err == EOF)) {
				label := "Read writes only the rows it reports"
				if tailLabel != "" && i >= 1+n && i < 1+ln {
					label = tailLabel
				}
				zz.Assert(zz.And(bk[i] == ZZSentinel, bv[i] == ZZSentinel), label)
			}
		}
		d.Keys = append(d.Keys, bk[1:1+n]...)
		d.Vals = append(d.Vals, bv[1:1+n]...)
		d.kept = append(d.kept, bk)
		d.keptN = append(d.keptN, n)
		if err != nil {
			d.Err = err
			break
		}
	}
	// rows delivered earlier must not have been altered by later reads
	p := 0
	for c, bk := range d.kept {
		for i := 0; i < d.keptN[c]; i++ {
			zz.Assert(bk[1+i] == d.Keys[p], "rows delivered earlier are not altered by later reads")
			p++
		}
	}
	return d
}

// ZZExpect asserts that the driven output is a prefix of (keys, vals) and, if
// the reader reported EOF, all of it.
func (d *ZZDrive) ZZExpect(keys, vals []int64, what string) {
	zz.Assert(len(d.Keys) <= len(keys), what+": no more rows than the reference stream")
	if len(d.Keys) > len(keys) {
		return
	}
	ok := true
	for i := range d.Keys {
		ok = zz.And(ok, zz.And(d.Keys[i] == keys[i], d.Vals[i] == vals[i]))
	}
	zz.Assert(ok, what+": rows equal the reference stream, in order")
	if d.Err == EOF {
		zz.Reach("reader reached EOF")
		zz.Assert(len(d.Keys) == len(keys), what+": EOF only after every row was delivered")
	}
}
