//go:build verif

package sliceio

import (
	"context"
	"encoding/gob"
	"errors"
	"hash"
	"io"
	"reflect"

	"github.com/grailbio/bigslice/frame"
	zz "github.com/grailbio/bigslice/internal/zzverif"
)

// Abstract token tape standing for the gob byte stream. The encoder and
// decoder methods of encoding/gob are redirected to it; the CRC is a ghost
// fold with an uninterpreted update function, fed by exactly the tokens that
// pass through the tee'd reader / multi-writer of the real plumbing.

const (
	zzTokLen = iota + 1
	zzTokFlag
	zzTokCol
	zzTokSum
)

type zzTok struct {
	kind int
	val  int64   // length, flag (0/1) or checksum
	col  []int64 // column payload
}

type zzTape struct {
	toks []zzTok
	pos  int
	cut  int // if >= 0, the tape ends before token cut (truncation)
}

// zzCRC is the ghost checksum: hash.Hash32 whose state is a solver term.
type zzCRC struct{ state int64 }

func (c *zzCRC) Write(p []byte) (int, error) { return len(p), nil }
func (c *zzCRC) Sum(b []byte) []byte         { return b }
func (c *zzCRC) Reset()                      { c.state = 0 }
func (c *zzCRC) Size() int                   { return 4 }
func (c *zzCRC) BlockSize() int              { return 1 }
func (c *zzCRC) Sum32() uint32               { return uint32(c.state) }
func (c *zzCRC) fold(x int64)                { c.state = zz.UFInt64("crcUpdate", c.state, x) }
func (c *zzCRC) foldTok(t zzTok) {
	c.fold(int64(t.kind))
	if t.kind == zzTokCol {
		for _, x := range t.col {
			c.fold(x)
		}
	} else {
		c.fold(t.val)
	}
}

var _ hash.Hash32 = (*zzCRC)(nil)

// plumbing models
type zzMultiWriter struct{ ws []io.Writer }

func (m *zzMultiWriter) Write(p []byte) (int, error) { return len(p), nil }

type zzTee struct {
	r io.Reader
	w io.Writer
}

func (t *zzTee) Read(p []byte) (int, error) { return 0, io.EOF }

func (t *zzTape) Read(p []byte) (int, error)  { return 0, io.EOF }
func (t *zzTape) Write(p []byte) (int, error) { return len(p), nil }
func (t *zzTape) ReadByte() (byte, error)     { return 0, io.EOF } // "buffered": NewDecodingReader keeps it as is

var (
	zzEncs = map[*gob.Encoder]*zzMultiWriter{}
	zzDecs = map[*gob.Decoder]*zzTee{}
)

func zzStubNewIEEE() hash.Hash32                        { return &zzCRC{} }
func zzStubMultiWriter(ws ...io.Writer) io.Writer       { return &zzMultiWriter{ws: ws} }
func zzStubTeeReader(r io.Reader, w io.Writer) io.Reader { return &zzTee{r: r, w: w} }

func zzStubNewEncoder(w io.Writer) *gob.Encoder {
	e := new(gob.Encoder)
	mw, ok := w.(*zzMultiWriter)
	if !ok {
		mw = &zzMultiWriter{ws: []io.Writer{w}}
	}
	zzEncs[e] = mw
	return e
}

func zzStubNewDecoder(r io.Reader) *gob.Decoder {
	d := new(gob.Decoder)
	if rb, ok := r.(readerByteReader); ok {
		r = rb.Reader
	}
	t, ok := r.(*zzTee)
	if !ok {
		t = &zzTee{r: r}
	}
	zzDecs[d] = t
	return d
}

func zzEmit(e *gob.Encoder, t zzTok) error {
	for _, w := range zzEncs[e].ws {
		switch w := w.(type) {
		case *zzTape:
			w.toks = append(w.toks, t)
		case *zzCRC:
			w.foldTok(t)
		}
	}
	return nil
}

func zzStubEncode(e *gob.Encoder, v interface{}) error {
	switch x := v.(type) {
	case int:
		return zzEmit(e, zzTok{kind: zzTokLen, val: int64(x)})
	case bool:
		b := int64(0)
		if x {
			b = 1
		}
		return zzEmit(e, zzTok{kind: zzTokFlag, val: b})
	case uint32:
		return zzEmit(e, zzTok{kind: zzTokSum, val: int64(x)})
	}
	return errors.New("zz: unexpected value encoded")
}

func zzStubEncodeValue(e *gob.Encoder, v reflect.Value) error {
	col := v.Interface().([]int64)
	return zzEmit(e, zzTok{kind: zzTokCol, col: append([]int64(nil), col...)})
}

func zzNext(d *gob.Decoder, want int) (zzTok, error) {
	tee := zzDecs[d]
	tape := tee.r.(*zzTape)
	if tape.pos >= len(tape.toks) || tape.cut >= 0 && tape.pos >= tape.cut {
		return zzTok{}, io.EOF
	}
	t := tape.toks[tape.pos]
	tape.pos++
	if c, ok := tee.w.(*zzCRC); ok {
		c.foldTok(t)
	}
	if t.kind != want {
		return t, errors.New("gob: type mismatch")
	}
	return t, nil
}

func zzStubDecode(d *gob.Decoder, v interface{}) error {
	switch p := v.(type) {
	case *int:
		t, err := zzNext(d, zzTokLen)
		if err != nil {
			return err
		}
		*p = int(t.val)
	case *bool:
		t, err := zzNext(d, zzTokFlag)
		if err != nil {
			return err
		}
		*p = t.val != 0
	case *uint32:
		t, err := zzNext(d, zzTokSum)
		if err != nil {
			return err
		}
		*p = uint32(t.val)
	default:
		return errors.New("zz: unexpected decode target")
	}
	return nil
}

func zzStubDecodeValue(d *gob.Decoder, v reflect.Value) error {
	t, err := zzNext(d, zzTokCol)
	if err != nil {
		return err
	}
	dst := v.Elem().Interface().([]int64)
	if len(t.col) != len(dst) {
		return errors.New("gob: decoding slice of wrong length")
	}
	copy(dst, t.col)
	return nil
}

// zzWriteBatches writes nb batches with symbolic contents through the real
// Encoder and returns the reference stream.
func zzWriteBatches(tape *zzTape, nb, maxRows int) (keys, vals []int64) {
	enc := NewEncodingWriter(tape)
	for b := 0; b < nb; b++ {
		n := zz.AnyIntIn("batchRows", 0, maxRows)
		if n == 0 {
			zz.Reach("empty batch")
		}
		m := ZZNewModel("w", n)
		err := enc.Write(context.Background(), frame.Slices(m.Keys, m.Vals))
		zz.Assert(err == nil, "writing a batch succeeds")
		keys = append(keys, m.Keys...)
		vals = append(vals, m.Vals...)
	}
	return
}

// zzH_C07_roundtrip: every sequence of batches written through the encoder is
// read back exactly, in order, followed by EOF, for every sequence of
// destination sizes (direct and buffered decode paths).
func zzH_C07_roundtrip() { zzRoundtrip(2, 3, 6, 2) }
func zzH_C07_roundtrip_deep() { zzRoundtrip(3, 3, 7, 3) }

func zzRoundtrip(nb, maxRows, calls, maxDst int) {
	tape := &zzTape{cut: -1}
	keys, vals := zzWriteBatches(tape, nb, maxRows)
	// framing: Len, then per column Flag+Col, then Sum
	zz.Assert(len(tape.toks) == nb*6, "each batch is framed as length, (flag, column) per column, checksum")
	r := NewDecodingReader(tape)
	d := ZZDriveReader(r, calls, 1, maxDst, "dst")
	d.ZZExpect(keys, vals, "decoding reader")
	if dr := r.(*decodingReader); !dr.scratch.IsZero() {
		zz.Reach("buffered decode path")
	}
	if nb >= 2 && len(tape.toks) >= 12 && tape.toks[0].val > tape.toks[6].val && tape.toks[6].val >= 2 {
		zz.Reach("smaller buffered batch after a larger one")
	}
	if d.Err != nil {
		zz.Assert(d.Err == EOF, "an undamaged stream ends with EOF, not an error")
	}
}

// zzH_C07_corrupt: one token of the stream is replaced by a different value
// (so that the checksum fold differs) or the stream is cut inside a batch: the
// reader fails at that batch, delivers no row of it, and everything delivered
// before is correct.
func zzH_C07_corrupt() { zzCorrupt(2, 2, 5, 2) }

func zzCorrupt(nb, maxRows, calls, maxDst int) {
	tape := &zzTape{cut: -1}
	keys, vals := zzWriteBatches(tape, nb, maxRows)
	if len(tape.toks) == 0 {
		return
	}
	// rows before the damaged batch
	w := zz.AnyIntIn("damagedToken", 0, len(tape.toks)-1)
	batch := w / 6
	good := 0
	for b := 0; b < batch; b++ {
		good += int(tape.toks[b*6].val)
	}
	if zz.AnyBool("truncate") {
		zz.Assume(w%6 != 0) // a cut at a batch boundary is a valid shorter stream
		tape.cut = w
		zz.Reach("truncated inside a batch")
	} else {
		t := &tape.toks[w]
		switch t.kind {
		case zzTokCol:
			if len(t.col) == 0 {
				return
			}
			i := zz.AnyIntIn("damagedCell", 0, len(t.col)-1)
			nv := zz.AnyInt64("damagedValue")
			zz.Assume(nv != t.col[i])
			t.col = append([]int64(nil), t.col...)
			t.col[i] = nv
			zz.Reach("column payload damaged")
		case zzTokSum:
			nv := zz.AnyInt64("damagedValue")
			zz.Assume(zz.And(nv != t.val, zz.And(nv >= 0, nv < 1<<32)))
			t.val = nv
			zz.Reach("checksum damaged")
		default:
			// length / flag damage changes the framing itself; covered by the
			// type-mismatch and length checks of the tape model
			nv := zz.AnyIntIn("damagedSmall", 0, 3)
			zz.Assume(int64(nv) != t.val)
			t.val = int64(nv)
			zz.Reach("length or flag damaged")
		}
		// assumption: damage changes the checksum fold (CRC-32 guarantees
		// this for single-bit flips and bursts up to 32 bits)
	}
	r := NewDecodingReader(tape)
	d := ZZDriveReader(r, calls, 1, maxDst, "dst")
	zz.Assume(zzFoldDiffers(tape, w))
	zz.Assert(len(d.Keys) <= good, "no row of the damaged batch (or later) is delivered")
	ok := true
	for i := range d.Keys {
		if i < good {
			ok = zz.And(ok, zz.And(d.Keys[i] == keys[i], d.Vals[i] == vals[i]))
		}
	}
	zz.Assert(ok, "rows delivered before the damage are the rows written")
	if d.Err != nil {
		zz.Assert(d.Err != EOF, "damage is reported as an error, not as end-of-stream")
		zz.Reach("damage detected")
	} else {
		zz.Assert(len(d.Keys) <= good, "without an error only undamaged batches were read")
	}
}

// zzFoldDiffers is the stated CRC assumption: the fold over the damaged batch
// differs from the checksum the writer stored (evaluated on the ghost).
func zzFoldDiffers(tape *zzTape, w int) bool {
	b := w / 6
	if tape.cut >= 0 {
		return true
	}
	c := &zzCRC{}
	for i := b * 6; i < b*6+5 && i < len(tape.toks); i++ {
		c.foldTok(tape.toks[i])
	}
	return int64(c.Sum32()) != tape.toks[b*6+5].val
}
