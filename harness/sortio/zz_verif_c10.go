//go:build verif

package sortio

import (
	"context"
	"reflect"

	"github.com/grailbio/bigslice/frame"
	zz "github.com/grailbio/bigslice/internal/zzverif"
	"github.com/grailbio/bigslice/slicefunc"
	"github.com/grailbio/bigslice/sliceio"
	"github.com/grailbio/bigslice/slicetype"
)

var zzTyp = slicetype.New(reflect.TypeOf(int64(0)), reflect.TypeOf(int64(0)))

func zzSetChunk(n int) func() {
	o1, o2 := sliceio.SpillBatchSize, defaultChunksize
	sliceio.SpillBatchSize, defaultChunksize = n, n
	return func() { sliceio.SpillBatchSize, defaultChunksize = o1, o2 }
}

// zzSortedInputs makes s model readers whose streams are sorted by key
// (optionally with unique keys), never returning an empty read (documented:
// the merge buffers treat an empty read as end of input).
func zzSortedInputs(s, maxRows int, unique bool) ([]*sliceio.ZZModelReader, []sliceio.Reader) {
	var ms []*sliceio.ZZModelReader
	var rs []sliceio.Reader
	for i := 0; i < s; i++ {
		n := zz.AnyIntIn("rows", 0, maxRows)
		m := sliceio.ZZNewModel("in", n)
		m.MaxEmpty = 0
		for k := 1; k < n; k++ {
			if unique {
				zz.Assume(m.Keys[k-1] < m.Keys[k])
			} else {
				zz.Assume(m.Keys[k-1] <= m.Keys[k])
			}
		}
		ms = append(ms, m)
		rs = append(rs, m)
	}
	return ms, rs
}

func zzAllRows(ms []*sliceio.ZZModelReader) (keys, vals []int64) {
	for _, m := range ms {
		keys = append(keys, m.Keys...)
		vals = append(vals, m.Vals...)
	}
	return
}

// zzCount is the term "number of rows (k, v) in the list".
func zzCount(keys, vals []int64, k, v int64) int {
	c := 0
	for i := range keys {
		c += zz.IteInt(zz.And(keys[i] == k, vals[i] == v), 1, 0)
	}
	return c
}

// zzH_C10_merge: merging sorted streams yields their sorted union (same
// multiset, non-decreasing keys), for every chunking and destination size.
func zzH_C10_merge() { zzMerge(2, 2, 5, 2, false) }
func zzH_C10_merge_deep() { zzMerge(2, 3, 6, 2, false) }
func zzH_C10_merge_err() { zzMerge(2, 2, 5, 2, true) }

func zzMerge(s, maxRows, calls, maxDst int, withErr bool) {
	defer zzSetChunk(2)()
	ns := zz.AnyIntIn("streams", 0, s)
	ms, rs := zzSortedInputs(ns, maxRows, false)
	if withErr {
		if ns == 0 {
			return
		}
		w := zz.AnyIntIn("errStream", 0, ns-1)
		ms[w].FailAt = zz.AnyIntIn("errAt", 0, len(ms[w].Keys))
	}
	ctx := context.Background()
	r, err := NewMergeReader(ctx, zzTyp, rs)
	if err != nil {
		zz.Assert(withErr && err == sliceio.ZZErrUpstream, "NewMergeReader fails only with an input's error")
		zz.Reach("error while priming")
		return
	}
	d := sliceio.ZZDriveReader(r, calls, 1, maxDst, "dst")
	keys, vals := zzAllRows(ms)
	for i := 1; i < len(d.Keys); i++ {
		zz.Assert(d.Keys[i-1] <= d.Keys[i], "merged output is in non-decreasing key order")
	}
	for i := range d.Keys {
		zz.Assert(zzCount(d.Keys, d.Vals, d.Keys[i], d.Vals[i]) <= zzCount(keys, vals, d.Keys[i], d.Vals[i]), "no row is duplicated or invented")
	}
	if d.Err == sliceio.EOF {
		zz.Reach("reader reached EOF")
		if !withErr {
			zz.Assert(len(d.Keys) == len(keys), "at EOF every input row was delivered")
		}
	} else if d.Err != nil {
		zz.Reach("input error surfaced")
		zz.Assert(d.Err == sliceio.ZZErrUpstream, "an input's read error is reported as is")
		n2, err2 := r.Read(ctx, frame.Make(zzTyp, 1, 1))
		zz.Assert(n2 == 0 && err2 == sliceio.ZZErrUpstream, "the error is sticky")
	}
	if withErr && d.Err == sliceio.EOF {
		// an input's error must never be swallowed as end of stream
		for _, m := range ms {
			zz.Assert(!m.Failed(), "an input's read error is never swallowed as a clean end of stream")
		}
	}
	if ns >= 2 && len(keys) >= 3 {
		zz.Reach("merged 3+ rows from 2+ streams")
	}
}

func zzAdd(a, b int64) int64 { return a + b }

// zzH_C10_reduce: the reducing merge of streams that are each sorted with
// unique keys yields one row per distinct key, ascending, carrying the sum of
// that key's values.
func zzH_C10_reduce() { zzReduce(2, 2, 5, 2, false) }
func zzH_C10_reduce_deep() { zzReduce(2, 2, 6, 3, false) }

// zzH_C10_reduce_err: an input's read error during the reducing merge is
// reported, sticky, and never swallowed as end of stream.
func zzH_C10_reduce_err() { zzReduce(2, 2, 5, 2, true) }

func zzReduce(s, maxRows, calls, maxDst int, withErr bool) {
	defer zzSetChunk(2)()
	ns := zz.AnyIntIn("streams", 0, s)
	ms, rs := zzSortedInputs(ns, maxRows, true)
	if withErr {
		if ns == 0 {
			return
		}
		w := zz.AnyIntIn("errStream", 0, ns-1)
		ms[w].FailAt = zz.AnyIntIn("errAt", 0, len(ms[w].Keys))
	}
	fn, _ := slicefunc.Of(zzAdd)
	r := Reduce(zzTyp, "zz", rs, fn)
	d := sliceio.ZZDriveReader(r, calls, 1, maxDst, "dst")
	keys, vals := zzAllRows(ms)
	for i := 1; i < len(d.Keys); i++ {
		zz.Assert(d.Keys[i-1] < d.Keys[i], "reduced output has strictly ascending (distinct) keys")
	}
	for i := range d.Keys {
		var sum int64
		present := false
		for k := range keys {
			eq := keys[k] == d.Keys[i]
			sum += zz.IteInt64(eq, vals[k], 0)
			present = zz.Or(present, eq)
		}
		zz.Assert(present, "every output key is an input key")
		if !withErr {
			zz.Assert(d.Vals[i] == sum, "the value is the fold of all values fed for the key")
		}
	}
	if withErr {
		if d.Err == sliceio.EOF {
			for _, m := range ms {
				zz.Assert(!m.Failed(), "an input's read error is never swallowed as a clean end of stream")
			}
		} else if d.Err != nil {
			zz.Reach("input error surfaced")
			zz.Assert(d.Err == sliceio.ZZErrUpstream, "an input's read error is reported as is")
			n2, err2 := r.Read(context.Background(), frame.Make(zzTyp, 1, 1))
			zz.Assert(n2 == 0 && err2 == sliceio.ZZErrUpstream, "the error is sticky")
		}
		return
	}
	if d.Err == sliceio.EOF {
		zz.Reach("reader reached EOF")
		for k := range keys {
			found := false
			for i := range d.Keys {
				found = zz.Or(found, d.Keys[i] == keys[k])
			}
			zz.Assert(found, "at EOF every input key was emitted")
		}
	}
	if ns >= 2 && len(d.Keys) < len(keys) {
		zz.Reach("keys combined across streams")
	}
}

// --- SortReader over a model spiller (in-memory runs) ---

var zzRuns [][2][]int64
var zzCleaned int
var zzBytesPerRow int

func ZZStubNewSpiller(name string) (sliceio.Spiller, error) {
	zzRuns, zzCleaned, zzBytesPerRow = nil, 0, 0
	return sliceio.Spiller("zz-" + name), nil
}

func ZZStubSpill(dir sliceio.Spiller, f frame.Frame) (int, error) {
	n := f.Len()
	var k, v []int64
	for i := 0; i < n; i++ {
		k = append(k, f.Index(0, i).Int())
		v = append(v, f.Index(1, i).Int())
	}
	zzRuns = append(zzRuns, [2][]int64{k, v})
	if zzBytesPerRow == 0 {
		zzBytesPerRow = zz.AnyIntIn("bytesPerRow", 1, 2) // chosen once per run
	}
	return n * zzBytesPerRow, nil
}

func ZZStubClosingReaders(dir sliceio.Spiller) ([]sliceio.Reader, error) {
	var rs []sliceio.Reader
	for _, run := range zzRuns {
		// chunking of merge inputs is explored by the merge harnesses; here
		// each run is served deterministically
		rs = append(rs, sliceio.FrameReader(frame.Slices(run[0], run[1])))
	}
	return rs, nil
}

func ZZStubCleanup(dir sliceio.Spiller) error { zzCleaned++; return nil }

// zzH_C10_sortReader: the sorting reader emits a sorted permutation of its
// input for every canary size, spill target and upstream chunking (including
// reads that return no rows without ending), and removes its spill files
// before returning.
func zzH_C10_sortReader() { zzSortHarness(3, 5, 2) }
func zzH_C10_sortReader_deep() { zzSortHarness(4, 4, 2) }

func zzSortHarness(maxRows, calls, maxDst int) {
	defer zzSetChunk(2)()
	old := *numCanaryRows
	*numCanaryRows = zz.AnyIntIn("canary", 1, 2)
	defer func() { *numCanaryRows = old }()
	n := zz.AnyIntIn("rows", 0, maxRows)
	m := sliceio.ZZNewModel("in", n)
	m.MaxEmpty = 1
	target := zz.AnyIntIn("spillTarget", 1, 3)
	ctx := context.Background()
	r, err := SortReader(ctx, target, zzTyp, m)
	zz.Assert(err == nil, "sorting a healthy stream succeeds")
	if err != nil {
		return
	}
	zz.Assert(zzCleaned == 1, "spill files are removed before SortReader returns")
	if len(zzRuns) >= 2 {
		zz.Reach("spilled more than once")
	}
	d := sliceio.ZZDriveReader(r, calls, 1, maxDst, "dst")
	for i := 1; i < len(d.Keys); i++ {
		zz.Assert(d.Keys[i-1] <= d.Keys[i], "sorted output is in non-decreasing key order")
	}
	for i := range d.Keys {
		zz.Assert(zzCount(d.Keys, d.Vals, d.Keys[i], d.Vals[i]) <= zzCount(m.Keys, m.Vals, d.Keys[i], d.Vals[i]), "no row is duplicated or invented")
	}
	if d.Err == sliceio.EOF {
		zz.Reach("reader reached EOF")
		zz.Assert(len(d.Keys) == n, "the output is a permutation of the input (same number of rows)")
	}
}

// zzH_C10_sortReader_err: an input error at ANY position of the stream (before
// the first row, in the middle of a batch, exactly on a batch boundary) is
// reported either by SortReader itself or by the reader it returns -- never
// turned into a clean end of stream -- and spill files are removed either way.
func zzH_C10_sortReader_err() {
	defer zzSetChunk(2)()
	old := *numCanaryRows
	*numCanaryRows = zz.AnyIntIn("canary", 1, 2)
	defer func() { *numCanaryRows = old }()
	n := zz.AnyIntIn("rows", 0, 3)
	m := sliceio.ZZNewModel("in", n)
	m.MaxEmpty = 1
	m.FailAt = zz.AnyIntIn("failAt", 0, n)
	target := zz.AnyIntIn("spillTarget", 1, 3)
	ctx := context.Background()
	r, err := SortReader(ctx, target, zzTyp, m)
	zz.Assert(zzCleaned == 1, "spill files are removed before SortReader returns")
	if !m.Failed() {
		return // the stream ended (EOF together with its last rows) before the failure point
	}
	if m.FailAt == 0 {
		zz.Reach("input fails before its first row")
	} else if m.FailAt%(*numCanaryRows) == 0 {
		zz.Reach("input fails exactly on a batch boundary")
	} else {
		zz.Reach("input fails inside a batch")
	}
	if err != nil {
		return // reported by SortReader itself
	}
	d := sliceio.ZZDriveReader(r, 5, 1, 2, "dst")
	zz.Assert(d.Err != sliceio.EOF, "a read error of the input is reported, never swallowed as end-of-stream")
}
