//go:build verif

package bigslice

import (
	"bufio"
	"context"
	"io"
	"strconv"

	"github.com/grailbio/bigslice/frame"
	zz "github.com/grailbio/bigslice/internal/zzverif"
	"github.com/grailbio/bigslice/sliceio"
)

// Line-counter model of bufio.Scanner: the file has zzScanLines lines (a
// solver variable); the k-th successful Scan makes Text() return "line<k-1>";
// before any Scan, Text() is "" (as with the real Scanner).
var (
	zzScanLines int
	zzScanPos   int
	zzScanEnded bool
)

func zzStubScannerScan(s *bufio.Scanner) bool {
	if zzScanEnded {
		return false
	}
	if zzScanPos < zzScanLines {
		zzScanPos++
		return true
	}
	zzScanEnded = true
	return false
}

func zzStubScannerText(s *bufio.Scanner) string {
	if zzScanPos == 0 {
		return ""
	}
	return "line" + strconv.Itoa(zzScanPos-1)
}

func zzStubScannerErr(s *bufio.Scanner) error { return nil }

type zzNopRC struct{}

func (zzNopRC) Read(p []byte) (int, error) { return 0, io.EOF }
func (zzNopRC) Close() error               { return nil }

// zzH_C01_scanReader: shard s of ScanReader emits exactly the lines
// s, s+nshard, s+2*nshard, ... of the input, so that the shards together emit
// every line exactly once and nothing else.
func zzH_C01_scanReader() {
	nshard := zz.AnyIntIn("nshard", 1, 3)
	shard := zz.AnyIntIn("shard", 0, nshard-1)
	L := zz.AnyInt("lines")
	zz.Assume(zz.And(L >= 0, L <= 6))
	zzScanLines, zzScanPos, zzScanEnded = L, 0, false
	op := ScanReader(nshard, func() (io.ReadCloser, error) { return zzNopRC{}, nil })
	r := op.Reader(shard, nil)
	var got []string
	ctx := context.Background()
	for c := 0; c < 8; c++ {
		ln := zz.AnyIntIn("dst", 1, 2)
		col := make([]string, ln)
		n, err := r.Read(ctx, frame.Slices(col))
		zz.Assert(n >= 0 && n <= ln, "Read returns between 0 and len(dst) rows")
		got = append(got, col[:n]...)
		if err != nil {
			zz.Assert(err == sliceio.EOF, "ScanReader ends with EOF")
			zz.Reach("eof")
			break
		}
	}
	for k, s := range got {
		zz.Assert(s == "line"+strconv.Itoa(shard+k*nshard), "shard s emits lines s, s+nshard, s+2*nshard, ... and nothing else")
	}
	// completeness: the number of rows is the number of lines in the stripe
	want := 0
	for k := shard; k < zzScanPos && zzScanEnded; k += nshard {
		want++
	}
	if zzScanEnded {
		zz.Assert(len(got) == want, "shard emits every line of its stripe")
	}
	if len(got) >= 2 {
		zz.Reach("two or more lines in the stripe")
	}
}
