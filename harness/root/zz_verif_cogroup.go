//go:build verif

package bigslice

import (
	"context"

	"github.com/grailbio/bigslice/frame"
	zz "github.com/grailbio/bigslice/internal/zzverif"
	"github.com/grailbio/bigslice/sliceio"
)

// zzH_C01_cogroup: Cogroup's reader over two dependencies with solver-chosen
// rows: the output is sorted by key, holds every distinct key of either input
// exactly once, and the group of each dependency is exactly the multiset of
// that dependency's values for the key (empty when the key does not occur
// there).
func zzH_C01_cogroup() { zzCogroupHarness(2, 1) }
func zzH_C01_cogroup_deep() { zzCogroupHarness(2, 2) }

func zzCogroupHarness(maxA, maxB int) {
	ctx := context.Background()
	a := sliceio.ZZNewModel("a", zz.AnyIntIn("rowsA", 0, maxA))
	b := sliceio.ZZNewModel("b", zz.AnyIntIn("rowsB", 0, maxB))
	a.NoEOFData, b.NoEOFData = true, true
	op := Cogroup(zzSrc2(), zzSrc2())
	r := op.Reader(0, []sliceio.Reader{a, b})
	total := len(a.Keys) + len(b.Keys)
	var keys []int64
	var ga, gb [][]int64
	var err error
	for it := 0; it < total+2 && err == nil; it++ {
		nd := zz.AnyIntIn("dst", 1, 2)
		out := frame.Make(op, nd, nd)
		var n int
		n, err = r.Read(ctx, out)
		zz.Assert(n >= 0 && n <= nd, "0 <= n <= len(dst)")
		for i := 0; i < n; i++ {
			keys = append(keys, out.Index(0, i).Int())
			ga = append(ga, append([]int64(nil), out.Index(1, i).Interface().([]int64)...))
			gb = append(gb, append([]int64(nil), out.Index(2, i).Interface().([]int64)...))
		}
	}
	zz.Assert(err == sliceio.EOF, "the reader ends with EOF")
	zz.Reach("cogroup read to EOF")
	for i := range keys {
		if i > 0 {
			zz.Assert(keys[i-1] < keys[i], "output keys are strictly increasing: sorted, each key once")
		}
		zzGroupIs(ga[i], keys[i], a.Keys, a.Vals, "first")
		zzGroupIs(gb[i], keys[i], b.Keys, b.Vals, "second")
		if len(ga[i]) > 0 && len(gb[i]) > 0 {
			zz.Reach("key present in both inputs")
		}
		if len(ga[i]) > 1 || len(gb[i]) > 1 {
			zz.Reach("group of two values")
		}
	}
	for _, in := range [][]int64{a.Keys, b.Keys} {
		for _, k := range in {
			found := false
			for i := range keys {
				found = zz.Or(found, keys[i] == k)
			}
			zz.Assert(found, "every input key is emitted")
		}
	}
}

// zzGroupIs asserts that g is, as a multiset, the values of the rows of
// (keys, vals) whose key is k.
func zzGroupIs(g []int64, k int64, keys, vals []int64, which string) {
	cnt := 0
	for j := range keys {
		if keys[j] == k {
			cnt++
		}
	}
	zz.Assert(len(g) == cnt, "the group has one value per row of that key")
	// multiset equality for groups of up to 2 values
	var want []int64
	for j := range keys {
		if keys[j] == k {
			want = append(want, vals[j])
		}
	}
	switch len(want) {
	case 1:
		zz.Assert(g[0] == want[0], "the group holds the key's values")
	case 2:
		zz.Assert(zz.Or(zz.And(g[0] == want[0], g[1] == want[1]), zz.And(g[0] == want[1], g[1] == want[0])), "the group holds the key's values")
	}
}

// zzH_C01_cogroup_refill: a dependency with more rows than Cogroup's internal
// buffer holds twice over (2*128+1 rows with keys 0,2,4,... and solver-chosen
// values), so that the buffer is refilled in the middle of the
// merge: every key still comes out once, in order, with its own value, next to
// the group of the (0..1 rows of the) second dependency.
func zzH_C01_cogroup_refill() {
	ctx := context.Background()
	const n = 2*128 + 1
	a := &sliceio.ZZModelReader{Tag: "a", FailAt: -1, NoEOFData: true, Keys: make([]int64, n), Vals: make([]int64, n)}
	for i := 0; i < n; i++ {
		// concrete even keys (comparisons among them need no solver), symbolic values
		a.Keys[i], a.Vals[i] = int64(2*i), zz.AnyInt64("a_val")
	}
	a.Deterministic = true
	b := sliceio.ZZNewModel("b", zz.AnyIntIn("rowsB", 0, 1))
	b.NoEOFData = true
	for _, k := range b.Keys {
		// the second dependency's key falls around the refill boundary (row 127/128)
		zz.Assume(zz.And(k >= 2*126, k <= 2*129+1))
	}
	op := Cogroup(zzSrc2(), zzSrc2())
	r := op.Reader(0, []sliceio.Reader{a, b})
	var keys []int64
	var ga, gb [][]int64
	var err error
	for it := 0; it < 4 && err == nil; it++ {
		out := frame.Make(op, 200, 200)
		var m int
		m, err = r.Read(ctx, out)
		for i := 0; i < m; i++ {
			keys = append(keys, out.Index(0, i).Int())
			ga = append(ga, append([]int64(nil), out.Index(1, i).Interface().([]int64)...))
			gb = append(gb, append([]int64(nil), out.Index(2, i).Interface().([]int64)...))
		}
	}
	zz.Assert(err == sliceio.EOF, "the reader ends with EOF")
	zz.Reach("cogroup over a refilled buffer read to EOF")
	// merge reference: a's keys in order, b's key inserted where it belongs
	j := 0
	for i := range keys {
		if i > 0 {
			zz.Assert(keys[i-1] < keys[i], "output keys are strictly increasing: sorted, each key once")
		}
		fromB := false
		for _, k := range b.Keys {
			fromB = zz.Or(fromB, k == keys[i])
		}
		if j < n && keys[i] == a.Keys[j] {
			zz.Assert(len(ga[i]) == 1 && ga[i][0] == a.Vals[j], "each key of the large dependency comes with its own value")
			j++
		} else {
			zz.Assert(fromB && len(ga[i]) == 0, "a key not in the large dependency comes from the second one")
		}
		if fromB {
			zz.Assert(len(gb[i]) == 1 && gb[i][0] == b.Vals[0], "the second dependency's group holds its value")
		} else {
			zz.Assert(len(gb[i]) == 0, "no group where the second dependency has no such key")
		}
	}
	zz.Assert(j == n, "every key of the large dependency is emitted")
}

// zzH_C01_cogroup_prefix2: Cogroup over inputs whose key is BOTH columns
// (Prefixed(.., 2)): the output is the set of distinct (k0, k1) pairs of either
// input, each exactly once, in strictly increasing lexicographic order. Rows
// that agree on the first key column only are different keys.
func zzH_C01_cogroup_prefix2() {
	ctx := context.Background()
	a := sliceio.ZZNewModel("a", zz.AnyIntIn("rowsA", 0, 2))
	b := sliceio.ZZNewModel("b", zz.AnyIntIn("rowsB", 0, 1))
	a.NoEOFData, b.NoEOFData = true, true
	op := Cogroup(Prefixed(zzSrc2(), 2), Prefixed(zzSrc2(), 2))
	zz.Assert(op.NumOut() == 2 && op.Prefix() == 2, "the cogroup of two-column keys has the two key columns")
	r := op.Reader(0, []sliceio.Reader{a, b})
	total := len(a.Keys) + len(b.Keys)
	var k0, k1 []int64
	var err error
	for it := 0; it < total+2 && err == nil; it++ {
		nd := zz.AnyIntIn("dst", 1, 2)
		out := frame.Make(op, nd, nd)
		var n int
		n, err = r.Read(ctx, out)
		zz.Assert(n >= 0 && n <= nd, "0 <= n <= len(dst)")
		for i := 0; i < n; i++ {
			k0 = append(k0, out.Index(0, i).Int())
			k1 = append(k1, out.Index(1, i).Int())
		}
	}
	zz.Assert(err == sliceio.EOF, "the reader ends with EOF")
	zz.Reach("cogroup read to EOF")
	for i := 1; i < len(k0); i++ {
		zz.Assert(zz.Or(k0[i-1] < k0[i], zz.And(k0[i-1] == k0[i], k1[i-1] < k1[i])), "output keys are strictly increasing in both key columns: sorted, each key once")
		if k0[i-1] == k0[i] {
			zz.Reach("two keys that agree on the first key column")
		}
	}
	for _, in := range []*sliceio.ZZModelReader{a, b} {
		for j := range in.Keys {
			found := false
			for i := range k0 {
				found = zz.Or(found, zz.And(k0[i] == in.Keys[j], k1[i] == in.Vals[j]))
			}
			zz.Assert(found, "every input key is emitted")
		}
	}
	for i := range k0 {
		found := false
		for _, in := range []*sliceio.ZZModelReader{a, b} {
			for j := range in.Keys {
				found = zz.Or(found, zz.And(k0[i] == in.Keys[j], k1[i] == in.Vals[j]))
			}
		}
		zz.Assert(found, "no key is invented")
	}
}
