//go:build verif

package bigslice

import (
	"strings"

	zz "github.com/grailbio/bigslice/internal/zzverif"
)

// zzH_C16_diff: for every pair of location lists up to the length bound over
// an alphabet of 3 opaque strings, FuncLocationsDiff is nil exactly when the
// lists are equal and otherwise is an edit script that transforms lhs into rhs.
func zzH_C16_diff() { zzDiffHarness(3) }
func zzH_C16_diff_deep() { zzDiffHarness(4) }

func zzDiffHarness(maxN int) {
	nl := zz.AnyIntIn("nl", 0, maxN)
	nr := zz.AnyIntIn("nr", 0, maxN)
	lhs := make([]string, nl)
	rhs := make([]string, nr)
	for i := range lhs {
		lhs[i] = zz.AnyStringAtom("lhs", 3)
	}
	for i := range rhs {
		rhs[i] = zz.AnyStringAtom("rhs", 3)
	}
	same := nl == nr
	if same {
		for i := range lhs {
			same = zz.And(same, lhs[i] == rhs[i])
		}
	}
	d := FuncLocationsDiff(lhs, rhs)
	zz.Assert(zz.Iff(d == nil, same), "diff is empty exactly when the two registries agree")
	if d == nil {
		zz.Reach("equal lists")
		return
	}
	zz.Reach("different lists")
	zz.Assert(len(d) <= nl+nr, "edit script no longer than both lists")
	li, ri := 0, 0
	for _, line := range d {
		switch {
		case strings.HasPrefix(line, "- "):
			zz.Reach("deletion")
			zz.Assert(li < nl, "deletion refers to an element of lhs")
			if li >= nl {
				return
			}
			zz.Assert(line[2:] == lhs[li], "deleted line is the next element of lhs")
			li++
		case strings.HasPrefix(line, "+ "):
			zz.Reach("addition")
			zz.Assert(ri < nr, "addition refers to an element of rhs")
			if ri >= nr {
				return
			}
			zz.Assert(line[2:] == rhs[ri], "added line is the next element of rhs")
			ri++
		default:
			zz.Reach("common line")
			zz.Assert(li < nl && ri < nr, "common line refers to elements of both lists")
			if li >= nl || ri >= nr {
				return
			}
			zz.Assert(zz.And(line == lhs[li], line == rhs[ri]), "common line is the next element of both lists")
			li++
			ri++
		}
	}
	zz.Assert(li == nl && ri == nr, "the script consumes all of lhs and produces all of rhs")
}

// zzH_C16_locationsTrackRegistry: the location list used to compare the
// driver's and a worker's Func registries reflects the registry AT THE TIME OF
// THE CALL: after every further registration it is one entry longer, keeps its
// earlier entries, and differs (non-empty diff) from the list taken before.
func zzH_C16_locationsTrackRegistry() {
	prev := FuncLocations()
	k := zz.AnyIntIn("lateRegistrations", 0, 2)
	for i := 0; i < k; i++ {
		Func(func() Slice { return Const(1, []int64{0}) })
		cur := FuncLocations()
		zz.Assert(len(cur) == len(prev)+1, "every registered Func has a location entry")
		for j := range prev {
			if j < len(cur) {
				zz.Assert(cur[j] == prev[j], "earlier entries are unchanged")
			}
		}
		zz.Assert(len(FuncLocationsDiff(prev, cur)) > 0, "registries of different sizes have a non-empty diff")
		prev = cur
		zz.Reach("late registration seen")
	}
	again := FuncLocations()
	zz.Assert(len(again) == len(prev) && len(FuncLocationsDiff(prev, again)) == 0, "without registrations the list is stable and the diff is empty")
}
