//go:build verif

package bigslice

import (
	"context"
	goerrors "errors"
	"strings"

	"github.com/grailbio/base/errors"

	"github.com/grailbio/bigslice/frame"
	zz "github.com/grailbio/bigslice/internal/zzverif"
	"github.com/grailbio/bigslice/sliceio"
)

// Operator readers over a model upstream with solver-chosen chunking, driven
// with solver-chosen destination sizes, compared with the reference stream of
// the documented operator meaning. User functions are uninterpreted.

func zzSrc2() Slice { return Const(1, []int64{0}, []int64{0}) }

func zzUpstream(maxRows, maxEmpty int) *sliceio.ZZModelReader {
	n := zz.AnyIntIn("rows", 0, maxRows)
	m := sliceio.ZZNewModel("in", n)
	m.MaxEmpty = maxEmpty
	return m
}

// zzH_C01_map: Map's reader yields F(row) for every input row, in order.
func zzH_C01_map() { zzMapHarness(3, 4, 3) }

func zzMapHarness(maxRows, calls, maxDst int) {
	m := zzUpstream(maxRows, 1)
	op := Map(zzSrc2(), func(k, v int64) (int64, int64) {
		return zz.UFInt64("F1", k, v), zz.UFInt64("F2", k, v)
	})
	r := op.Reader(0, []sliceio.Reader{m})
	d := sliceio.ZZDriveReader(r, calls, 1, maxDst, "dst")
	wk, wv := make([]int64, len(m.Keys)), make([]int64, len(m.Keys))
	for i := range wk {
		wk[i], wv[i] = zz.UFInt64("F1", m.Keys[i], m.Vals[i]), zz.UFInt64("F2", m.Keys[i], m.Vals[i])
	}
	d.ZZExpect(wk, wv, "Map")
}

// zzH_C01_filter: Filter's reader yields exactly the rows satisfying P, in order.
func zzH_C01_filter() { zzFilterHarness(3, 4, 2) }

func zzFilterHarness(maxRows, calls, maxDst int) {
	m := zzUpstream(maxRows, 1)
	op := Filter(zzSrc2(), func(k, v int64) bool { return zz.UFBool("P", k, v) })
	r := op.Reader(0, []sliceio.Reader{m})
	d := sliceio.ZZDriveReader(r, calls, 1, maxDst, "dst")
	var wk, wv []int64
	for i := range m.Keys {
		if zz.UFBool("P", m.Keys[i], m.Vals[i]) {
			wk, wv = append(wk, m.Keys[i]), append(wv, m.Vals[i])
		}
	}
	if len(wk) < len(m.Keys) {
		zz.Reach("some row filtered out")
	}
	d.ZZExpect(wk, wv, "Filter")
}

// zzH_C01_flatmap: Flatmap's reader yields the concatenation of G(row).
func zzH_C01_flatmap() { zzFlatmapHarness(2, 4, 2) }

func zzGLen(k, v int64) int {
	n := int(zz.UFInt64("Glen", k, v))
	zz.Assume(zz.And(n >= 0, n <= 2))
	return zz.Concrete(n)
}

func zzFlatmapHarness(maxRows, calls, maxDst int) {
	m := zzUpstream(maxRows, 1)
	op := Flatmap(zzSrc2(), func(k, v int64) ([]int64, []int64) {
		n := zzGLen(k, v)
		a, b := make([]int64, n), make([]int64, n)
		for i := 0; i < n; i++ {
			a[i], b[i] = zz.UFInt64("G1", k, v, int64(i)), zz.UFInt64("G2", k, v, int64(i))
		}
		return a, b
	})
	r := op.Reader(0, []sliceio.Reader{m})
	d := sliceio.ZZDriveReader(r, calls, 1, maxDst, "dst")
	var wk, wv []int64
	for i := range m.Keys {
		n := zzGLen(m.Keys[i], m.Vals[i])
		if n == 2 {
			zz.Reach("row expands to 2")
		}
		if n == 0 {
			zz.Reach("row expands to 0")
		}
		for j := 0; j < n; j++ {
			wk = append(wk, zz.UFInt64("G1", m.Keys[i], m.Vals[i], int64(j)))
			wv = append(wv, zz.UFInt64("G2", m.Keys[i], m.Vals[i], int64(j)))
		}
	}
	d.ZZExpect(wk, wv, "Flatmap")
}

// zzH_C01_head: Head's reader yields the first n rows of the shard.
func zzH_C01_head() { zzHeadHarness(4, 4, 3) }

func zzHeadHarness(maxRows, calls, maxDst int) {
	m := zzUpstream(maxRows, 1)
	h := zz.AnyIntIn("head", 0, maxRows+1)
	op := Head(zzSrc2(), h)
	r := op.Reader(0, []sliceio.Reader{m})
	d := sliceio.ZZDriveReader(r, calls, 1, maxDst, "dst")
	w := h
	if len(m.Keys) < w {
		w = len(m.Keys)
	}
	if h < len(m.Keys) {
		zz.Reach("head cuts the stream")
	}
	d.ZZExpect(m.Keys[:w], m.Vals[:w], "Head")
}

// zzH_C01_writerFunc: WriterFunc passes the stream through unchanged and the
// write function observes every row of the shard exactly once, in order,
// followed by end-of-stream exactly once.
func zzH_C01_writerFunc() { zzWriterHarness(3, 4, 3) }

type zzWState struct {
	keys, vals []int64
	eofs       int
	afterEOF   bool
}

func zzWriterHarness(maxRows, calls, maxDst int) {
	m := zzUpstream(maxRows, 1)
	var seen *zzWState
	op := WriterFunc(zzSrc2(), func(shard int, st *zzWState, err error, ks []int64, vs []int64) error {
		seen = st
		if st.eofs > 0 {
			st.afterEOF = true
		}
		st.keys = append(st.keys, ks...)
		st.vals = append(st.vals, vs...)
		if err == sliceio.EOF {
			st.eofs++
		}
		return nil
	})
	r := op.Reader(0, []sliceio.Reader{m})
	d := sliceio.ZZDriveReader(r, calls, 1, maxDst, "dst")
	d.ZZExpect(m.Keys, m.Vals, "WriterFunc")
	if seen != nil {
		zz.Assert(len(seen.keys) == len(d.Keys), "the write function saw exactly the rows delivered so far")
		ok := true
		for i := range seen.keys {
			if i < len(d.Keys) {
				ok = zz.And(ok, zz.And(seen.keys[i] == d.Keys[i], seen.vals[i] == d.Vals[i]))
			}
		}
		zz.Assert(ok, "the write function saw every row once, in order")
		if d.Err == sliceio.EOF {
			zz.Assert(seen.eofs == 1, "the write function saw end-of-stream exactly once")
			zz.Assert(!seen.afterEOF, "the write function is not called after end-of-stream")
		}
	}
}

// zzH_C01_scan: Scan's callback observes every row of the shard exactly once,
// in order, then end-of-stream with a nil error.
func zzH_C01_scan() {
	m := zzUpstream(3, 1)
	var gk, gv []int64
	scans := 0
	var scanErr error
	op := Scan(zzSrc2(), func(shard int, sc *sliceio.Scanner) error {
		scans++
		var k, v int64
		for sc.Scan(context.Background(), &k, &v) {
			gk, gv = append(gk, k), append(gv, v)
		}
		scanErr = sc.Err()
		return scanErr
	})
	r := op.Reader(0, []sliceio.Reader{m})
	n, err := r.Read(context.Background(), frame.Empty)
	zz.Assert(n == 0 && err == sliceio.EOF, "Scan's reader reports end-of-stream without rows")
	zz.Assert(scans == 1 && scanErr == nil, "the callback ran once and the scanner ended with a nil error")
	zz.Assert(len(gk) == len(m.Keys), "the callback observed every row")
	ok := true
	for i := range gk {
		if i < len(m.Keys) {
			ok = zz.And(ok, zz.And(gk[i] == m.Keys[i], gv[i] == m.Vals[i]))
		}
	}
	zz.Assert(ok, "the callback observed the rows once each, in order")
	if len(m.Keys) >= 2 {
		zz.Reach("scanned 2+ rows")
	}
}

// zzH_C17_readerFunc: ReaderFunc's reader passes the user's rows through, for
// every sequence of chunk sizes the user function chooses, and zeroes the
// destination before handing it to the user.
func zzH_C17_readerFunc() {
	n := zz.AnyIntIn("rows", 0, 3)
	data := sliceio.ZZNewModel("data", n)
	type state struct{ pos int }
	dirty := false
	op := ReaderFunc(1, func(shard int, st *state, ks []int64, vs []int64) (int, error) {
		for i := range ks {
			if ks[i] != 0 || vs[i] != 0 {
				dirty = true
			}
		}
		rem := n - st.pos
		max := len(ks)
		if rem < max {
			max = rem
		}
		c := zz.AnyIntIn("userChunk", 0, max)
		copy(ks, data.Keys[st.pos:st.pos+c])
		copy(vs, data.Vals[st.pos:st.pos+c])
		st.pos += c
		if st.pos == n && (c == 0 || zz.AnyBool("eofWithRows")) {
			return c, sliceio.EOF
		}
		return c, nil
	})
	r := op.Reader(0, nil)
	d := sliceio.ZZDriveReaderOpt(r, 5, 1, 2, "dst", "ReaderFunc leaves destination rows beyond those it reports untouched")
	d.ZZExpect(data.Keys, data.Vals, "ReaderFunc")
	zz.Assert(!dirty, "the destination is zeroed before it is handed to the user function")
}

// zzH_C06_readerFuncErr: errors returned by user reader/writer functions:
// plain errors become Fatal errors whose cause is the user's error, temporary
// errors and EOF pass through unchanged, and the error is sticky.
func zzH_C06_readerFuncErr() {
	kind := zz.AnyIntIn("kind", 0, 2)
	userErr := goerrors.New("zz-user-message")
	var ret error
	switch kind {
	case 0:
		ret = userErr
	case 1:
		ret = errors.E(errors.Temporary, userErr)
	case 2:
		ret = sliceio.EOF
	}
	failAt := zz.AnyIntIn("failAtCall", 0, 2)
	calls := 0
	type state struct{}
	op := ReaderFunc(1, func(shard int, st state, ks []int64, vs []int64) (int, error) {
		calls++
		if calls-1 == failAt {
			return 0, ret
		}
		return 1, nil
	})
	r := op.Reader(0, nil)
	ctx := context.Background()
	var err error
	for c := 0; c < 4 && err == nil; c++ {
		_, err = r.Read(ctx, frame.Slices(make([]int64, 1), make([]int64, 1)))
	}
	zz.Assert(err != nil, "the user's error surfaces")
	switch kind {
	case 0:
		zz.Reach("plain error wrapped")
		zz.Assert(errors.Match(errors.E(errors.Fatal), err), "a plain user error becomes a fatal error")
		zz.Assert(strings.Contains(err.Error(), "zz-user-message"), "the fatal error carries the user's message")
	case 1:
		zz.Reach("temporary passed through")
		zz.Assert(errors.IsTemporary(err), "a temporary error stays temporary")
	case 2:
		zz.Reach("eof passed through")
		zz.Assert(err == sliceio.EOF, "EOF is passed through unchanged")
	}
	before := calls
	_, err2 := r.Read(ctx, frame.Slices(make([]int64, 1), make([]int64, 1)))
	zz.Assert(err2 == err && calls == before, "the error is sticky and the user function is not called again")
}

// zzH_C06_writerFuncErr: an error returned by a WriterFunc's write function at
// any call - also at the call that delivers end-of-stream, alone or together
// with the last rows - surfaces from Read as a fatal error carrying the user's
// message (temporary errors stay temporary), and is sticky.
func zzH_C06_writerFuncErr() {
	m := zzUpstream(2, 1)
	temp := zz.AnyBool("temporary")
	failAt := zz.AnyIntIn("failAtCall", 0, 3)
	userErr := goerrors.New("zz-user-message")
	calls, failed, atEOF := 0, false, false
	type state struct{}
	op := WriterFunc(zzSrc2(), func(shard int, st state, err error, ks []int64, vs []int64) error {
		calls++
		if calls-1 == failAt {
			failed = true
			atEOF = err == sliceio.EOF
			if temp {
				return errors.E(errors.Temporary, userErr)
			}
			return userErr
		}
		return nil
	})
	r := op.Reader(0, []sliceio.Reader{m})
	ctx := context.Background()
	var err error
	for c := 0; c < 5 && err == nil; c++ {
		_, err = r.Read(ctx, frame.Slices(make([]int64, 1), make([]int64, 1)))
	}
	if !failed {
		zz.Reach("writer never failed")
		zz.Assert(err == sliceio.EOF, "a healthy writer sees the stream through to EOF")
		return
	}
	if atEOF {
		zz.Reach("writer failed at end-of-stream")
	} else {
		zz.Reach("writer failed mid-stream")
	}
	zz.Assert(err != nil && err != sliceio.EOF, "a write function's error is never dropped, also at end-of-stream")
	if err == nil || err == sliceio.EOF {
		return
	}
	zz.Assert(strings.Contains(err.Error(), "zz-user-message"), "the error carries the user's message")
	if temp {
		zz.Assert(errors.IsTemporary(err), "a temporary writer error stays temporary")
	} else {
		zz.Assert(errors.Match(errors.E(errors.Fatal), err), "a plain writer error becomes fatal")
	}
	_, err2 := r.Read(ctx, frame.Slices(make([]int64, 1), make([]int64, 1)))
	zz.Assert(err2 == err, "the error is sticky")
}

// zzH_C01_fold: Fold's reader emits exactly one row per distinct key of the
// shard carrying the fold of that key's rows in arrival order (the fold
// function is uninterpreted), for every key coincidence pattern, upstream
// chunking and destination-size sequence.
func zzH_C01_fold() { zzFoldHarness(3, 4, 2) }

func zzFoldHarness(maxRows, calls, maxDst int) {
	m := zzUpstream(maxRows, 1)
	op := Fold(zzSrc2(), func(acc int64, v int64) int64 { return zz.UFInt64("foldStep", acc, v) })
	r := op.Reader(0, []sliceio.Reader{m})
	d := sliceio.ZZDriveReader(r, calls, 1, maxDst, "dst")
	// reference: per output row, fold the rows with that key in arrival order
	for i := range d.Keys {
		for j := i + 1; j < len(d.Keys); j++ {
			zz.Assert(d.Keys[i] != d.Keys[j], "Fold emits each distinct key once")
		}
		acc := int64(0)
		present := false
		for k := range m.Keys {
			eq := m.Keys[k] == d.Keys[i]
			present = zz.Or(present, eq)
			acc = zz.IteInt64(eq, zz.UFInt64("foldStep", acc, m.Vals[k]), acc)
		}
		zz.Assert(present, "every emitted key is an input key")
		zz.Assert(d.Vals[i] == acc, "the value is the fold of the key's rows in arrival order")
	}
	if d.Err == sliceio.EOF {
		zz.Reach("reader reached EOF")
		for k := range m.Keys {
			found := false
			for i := range d.Keys {
				found = zz.Or(found, d.Keys[i] == m.Keys[k])
			}
			zz.Assert(found, "at EOF every input key was emitted")
		}
		if len(d.Keys) < len(m.Keys) {
			zz.Reach("keys folded together")
		}
	}
}
