//go:build verif

package bigslice

import (
	zz "github.com/grailbio/bigslice/internal/zzverif"
	"github.com/grailbio/bigslice/sliceio"
)

// zzH_C01_constReader: shard s of Const delivers rows [offset, offset+count)
// of the data in order, for every read-size sequence; the shards together are
// the data.
func zzH_C01_constReader() {
	n := zz.AnyIntIn("rows", 0, 4)
	nshard := zz.AnyIntIn("nshard", 1, 3)
	shard := zz.AnyIntIn("shard", 0, nshard-1)
	m := sliceio.ZZNewModel("data", n)
	c := Const(nshard, m.Keys, m.Vals)
	r := c.Reader(shard, nil)
	off, cnt := constShard(n, nshard, shard)
	d := sliceio.ZZDriveReader(r, 4, 1, 3, "dst")
	d.ZZExpect(m.Keys[off:off+cnt], m.Vals[off:off+cnt], "Const shard")
	if cnt >= 2 {
		zz.Reach("shard with 2+ rows")
	}
}
