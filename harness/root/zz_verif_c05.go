//go:build verif

package bigslice

import (
	"context"

	"github.com/grailbio/bigslice/frame"
	zz "github.com/grailbio/bigslice/internal/zzverif"
)

// zzH_C05_repartition: Repartition places every row in exactly the shard its
// function returns (the user function is uninterpreted), for every row,
// frame offset and shard count.
func zzH_C05_repartition() {
	const n = 3
	ks, vs := make([]int64, n), make([]int32, n)
	for i := 0; i < n; i++ {
		ks[i], vs[i] = zz.AnyInt64("key"), zz.AnyInt32("val")
	}
	src := Const(1, []int64{0}, []int32{0})
	r := Repartition(src, func(nshard int, k int64, v int32) int {
		return int(zz.UFInt64("userPartition", int64(nshard), k, int64(v)))
	})
	part := r.Dep(0).Partitioner
	zz.Assert(part != nil, "Repartition installs a partitioner")
	zz.Assert(r.Dep(0).Shuffle, "Repartition is a shuffle dependency")
	f := frame.Slices(ks, vs)
	a := zz.AnyIntIn("a", 0, n-1)
	fv := f.Slice(a, n)
	if a > 0 {
		zz.Reach("view with offset > 0")
	}
	nshard := zz.AnyInt("nshard")
	zz.Assume(zz.And(nshard >= 1, nshard < 1<<31))
	shards := make([]int, fv.Len())
	part(context.Background(), fv, nshard, shards)
	for i := range shards {
		want := int(zz.UFInt64("userPartition", int64(nshard), ks[a+i], int64(vs[a+i])))
		zz.Assert(shards[i] == want, "row is placed in the shard the user function returned")
	}
}

func zzPartFn(nshard int, k int64, v int64) int { return 0 }
func zzFoldFn(acc int64, v int64) int64         { return acc + v }

// zzH_C05_keyedDeps: every operator that redistributes by key (Reduce, Fold,
// Cogroup, Reshuffle, Reshard to another shard count) consumes EVERY input
// through a shuffle dependency with the default (key hash) partitioner --
// whatever kind of slice the input is: a plain source, the output of
// Reshuffle, of Repartition (placed by a user function, NOT by key), of
// Reduce, or of another Cogroup. Otherwise equal keys of different inputs, or
// of one input placed by a user function, would stay in different shards.
func zzH_C05_keyedDeps() {
	// placedByKey records, per input, whether its rows are already placed by
	// the hash of the key (then an operator may legitimately skip the
	// shuffle when shard counts agree; nothing is asserted about that).
	placedByKey := map[Slice]bool{}
	mk := func(tag string) (out Slice) {
		base := Const(2, []int64{0, 1}, []int64{0, 1})
		kind := zz.AnyIntIn(tag, 0, 4)
		defer func() { placedByKey[out] = kind == 1 || kind == 3 || kind == 4 }()
		switch kind {
		case 1:
			zz.Reach("input is Reshuffle output")
			return Reshuffle(base)
		case 2:
			zz.Reach("input is Repartition output")
			return Repartition(base, zzPartFn)
		case 3:
			zz.Reach("input is Reduce output")
			return Reduce(base, func(a, b int64) int64 { return a + b })
		case 4:
			zz.Reach("input is Cogroup output")
			return Cogroup(base)
		}
		return base
	}
	keyed := func(d Dep, what string) {
		if !placedByKey[d.Slice] {
			zz.Assert(d.Shuffle, what+": an input that is not placed by key (a source, or Repartition output placed by a user function) is consumed through a shuffle")
		}
		zz.Assert(d.Partitioner == nil, what+": rows are placed by the hash of their key, not by a custom partitioner")
	}
	switch zz.AnyIntIn("operator", 0, 4) {
	case 0:
		a, b := mk("inputA"), mk("inputB")
		c := Cogroup(a, b)
		zz.Assert(c.NumDep() == 2, "Cogroup depends on each of its inputs")
		keyed(c.Dep(0), "Cogroup (first input)")
		keyed(c.Dep(1), "Cogroup (second input)")
		zz.Assert(c.NumShard() == 2, "Cogroup keeps the largest shard count of its inputs")
	case 1:
		in := mk("inputA")
		if in.Out(1).Kind().String() != "int64" {
			return // Reduce needs a scalar value column (Cogroup output has a slice column)
		}
		r := Reduce(in, func(a, b int64) int64 { return a + b })
		keyed(r.Dep(0), "Reduce")
	case 2:
		in := mk("inputA")
		if in.Out(1).Kind().String() != "int64" {
			return
		}
		f := Fold(in, zzFoldFn)
		keyed(f.Dep(0), "Fold")
	case 3:
		in := mk("inputA")
		r := Reshuffle(in)
		keyed(r.Dep(0), "Reshuffle")
	case 4:
		in := mk("inputA")
		r := Reshard(in, 3)
		zz.Assert(r.NumShard() == 3, "Reshard yields the requested shard count")
		keyed(r.Dep(0), "Reshard")
	}
}
