//go:build verif

package bigslice

import (
	"context"

	"github.com/grailbio/bigslice/frame"
	zz "github.com/grailbio/bigslice/internal/zzverif"
)

// zzH_C05_repartition: Repartition places every row in exactly the shard its
// function returns (the user function is uninterpreted), for every row,
// frame offset and shard count.
func zzH_C05_repartition() {
	const n = 3
	ks, vs := make([]int64, n), make([]int32, n)
	for i := 0; i < n; i++ {
		ks[i], vs[i] = zz.AnyInt64("key"), zz.AnyInt32("val")
	}
	src := Const(1, []int64{0}, []int32{0})
	r := Repartition(src, func(nshard int, k int64, v int32) int {
		return int(zz.UFInt64("userPartition", int64(nshard), k, int64(v)))
	})
	part := r.Dep(0).Partitioner
	zz.Assert(part != nil, "Repartition installs a partitioner")
	zz.Assert(r.Dep(0).Shuffle, "Repartition is a shuffle dependency")
	f := frame.Slices(ks, vs)
	a := zz.AnyIntIn("a", 0, n-1)
	fv := f.Slice(a, n)
	if a > 0 {
		zz.Reach("view with offset > 0")
	}
	nshard := zz.AnyInt("nshard")
	zz.Assume(zz.And(nshard >= 1, nshard < 1<<31))
	shards := make([]int, fv.Len())
	part(context.Background(), fv, nshard, shards)
	for i := range shards {
		want := int(zz.UFInt64("userPartition", int64(nshard), ks[a+i], int64(vs[a+i])))
		zz.Assert(shards[i] == want, "row is placed in the shard the user function returned")
	}
}
