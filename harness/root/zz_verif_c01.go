//go:build verif

package bigslice

import (
	zz "github.com/grailbio/bigslice/internal/zzverif"
)

// zzH_C01_constShard: inductive statement that Const's shards tile [0,n) in
// shard order, for EVERY n and shard count (int-mode; the 2^40 magnitude
// bound only excludes 64-bit overflow, which is itself an obligation):
//   offset(0)=0; offset(s+1)=offset(s)+count(s); offset(last)+count(last)=n;
//   count>=0; counts differ by at most one.
func zzH_C01_constShard() {
	n := zz.AnyIntMath("n")
	nshard := zz.AnyIntMath("nshard")
	s := zz.AnyIntMath("shard")
	const B = 1 << 40
	zz.Assume(zz.And(n >= 0, n < B))
	zz.Assume(zz.And(nshard >= 1, nshard < B))
	zz.Assume(zz.And(s >= 0, s < nshard))
	off, cnt := constShard(n, nshard, s)
	zz.Assert(cnt >= 0, "shard row count is non-negative")
	zz.Assert(zz.And(off >= 0, off+cnt <= n), "shard range lies inside the data")
	if s == 0 {
		zz.Reach("first shard")
		zz.Assert(off == 0, "first shard starts at row 0")
	}
	if s == nshard-1 {
		zz.Reach("last shard")
		zz.Assert(off+cnt == n, "last shard ends at row n")
	} else {
		zz.Reach("inner shard")
		off2, cnt2 := constShard(n, nshard, s+1)
		zz.Assert(off2 == off+cnt, "next shard starts where this one ends (no gap, no overlap)")
		zz.Assert(zz.And(cnt-cnt2 <= 1, cnt2-cnt <= 1), "shard sizes differ by at most one")
	}
}
