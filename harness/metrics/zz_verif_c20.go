//go:build verif

package metrics

import (
	zz "github.com/grailbio/bigslice/internal/zzverif"
)

// zzFill gives scope s symbolic values: each counter either has no instance in
// the scope or has been incremented by an arbitrary amount (possibly twice).
func zzFill(s *Scope, cs []Counter, tag string) []int64 {
	vals := make([]int64, len(cs))
	for i, c := range cs {
		if zz.AnyBool(tag + "_has") {
			a := zz.AnyInt64(tag + "_incr")
			c.Incr(s, a)
			vals[i] = a
			if zz.AnyBool(tag + "_twice") {
				b := zz.AnyInt64(tag + "_incr2")
				c.Incr(s, b)
				vals[i] = a + b
			}
		}
	}
	return vals
}

// zzH_C20_merge: Merge adds, leaves its argument unchanged, is commutative
// and associative on the values, for all 64-bit counter values and all
// presence patterns.
func zzH_C20_merge() {
	cs := []Counter{NewCounter(), NewCounter()}
	var s, u, w Scope
	sv := zzFill(&s, cs, "s")
	uv := zzFill(&u, cs, "u")
	for i, c := range cs {
		zz.Assert(c.Value(&s) == sv[i], "a counter reports the sum of its increments")
	}
	s.Merge(&u)
	zz.Reach("merged")
	for i, c := range cs {
		zz.Assert(c.Value(&s) == sv[i]+uv[i], "merge adds the argument's value")
		zz.Assert(c.Value(&u) == uv[i], "merge leaves its argument unchanged")
	}
	// commutativity: u2.Merge(s2) gives the same values as s.Merge(u)
	var s2, u2 Scope
	for i, c := range cs {
		c.Incr(&s2, sv[i])
		c.Incr(&u2, uv[i])
	}
	u2.Merge(&s2)
	for _, c := range cs {
		zz.Assert(c.Value(&u2) == c.Value(&s), "merge is commutative on values")
	}
	// associativity with a third scope
	wv := zzFill(&w, cs, "w")
	s.Merge(&w) // (s+u)+w
	var t Scope
	t.Merge(&u)
	t.Merge(&w) // u+w
	var s3 Scope
	for i, c := range cs {
		c.Incr(&s3, sv[i])
	}
	s3.Merge(&t) // s+(u+w)
	for i, c := range cs {
		zz.Assert(c.Value(&s3) == c.Value(&s), "merge is associative on values")
		zz.Assert(c.Value(&s) == sv[i]+uv[i]+wv[i], "three-way merge is the sum")
	}
	// incrementing one scope/metric affects nothing else
	d := zz.AnyInt64("extra")
	before := cs[1].Value(&s)
	ub := cs[0].Value(&u)
	cs[0].Incr(&s, d)
	zz.Assert(cs[1].Value(&s) == before, "an increment affects only its metric")
	zz.Assert(cs[0].Value(&u) == ub, "an increment affects only its scope")
}

// zzH_C20_reset: Reset(u) makes the scope report u's values; Reset(nil)
// zeroes it.
func zzH_C20_reset() {
	cs := []Counter{NewCounter(), NewCounter()}
	var s, u Scope
	zzFill(&s, cs, "s")
	uv := zzFill(&u, cs, "u")
	s.Reset(&u)
	zz.Reach("reset to scope")
	for i, c := range cs {
		zz.Assert(c.Value(&s) == uv[i], "after Reset(u) the scope reports u's values")
		zz.Assert(c.Value(&u) == uv[i], "Reset leaves its argument unchanged")
	}
	s.Reset(nil)
	zz.Reach("reset to nil")
	for i, c := range cs {
		zz.Assert(c.Value(&s) == 0, "after Reset(nil) every counter is zero")
		zz.Assert(c.Value(&u) == uv[i], "Reset(nil) of one scope leaves the other unchanged")
	}
}
