//go:build verif

package exec

import (
	"context"
	"runtime"

	"github.com/grailbio/base/errors"
	"github.com/grailbio/base/eventlog"
	"github.com/grailbio/base/limiter"
	"github.com/grailbio/bigslice/frame"
	zz "github.com/grailbio/bigslice/internal/zzverif"
	"github.com/grailbio/bigslice/sliceio"
)

// zzLocalRuns: concurrent evaluations on the REAL in-process executor (its
// limiter, buffers map and task-state transitions), over a source task a with
// solver-chosen rows and a task b that passes a's rows through. The source may
// be lost on its first attempt (a temporary error) and, in the discard
// scenario, a's result is discarded at an arbitrary synchronisation point while
// the runs are in flight. Every run that reports success can read exactly the
// rows it would have read if executed alone.
func zzLocalRuns(rootSets [][]int, discard bool) {
	old := *defaultChunksize
	*defaultChunksize = 2
	defer func() { *defaultChunksize = old }()
	l := newLocalExecutor()
	l.Start(&Session{p: zz.AnyIntIn("parallelism", 1, 2), eventer: eventlog.Nop{}})
	n := zz.AnyIntIn("rows", 0, 2)
	keys, vals := make([]int64, n), make([]int64, n)
	for i := range keys {
		keys[i], vals[i] = zz.AnyInt64("key"), zz.AnyInt64("val")
	}
	loseFirst := zz.AnyBool("sourceLostOnFirstAttempt")
	attempts := map[string]int{}
	a := &Task{Name: TaskName{Op: "a", NumShard: 1}, Type: zzTyp2, NumPartition: 1, Pragma: zzExclPragma{false}}
	a.Do = func([]sliceio.Reader) sliceio.Reader {
		attempts["a"]++
		m := &sliceio.ZZModelReader{Tag: "src", FailAt: -1, Keys: keys, Vals: vals, NoEOFData: true}
		if loseFirst && attempts["a"] == 1 {
			zz.Reach("source lost on its first attempt")
			m.FailAt = 0
			m.FailWith = errors.E(errors.Temporary, zzUserErr)
		}
		return m
	}
	b := &Task{Name: TaskName{Op: "b", NumShard: 1}, Type: zzTyp2, NumPartition: 1, Pragma: zzExclPragma{false}, Deps: []TaskDep{{Head: a}}}
	b.Do = func(in []sliceio.Reader) sliceio.Reader {
		attempts["b"]++
		return in[0]
	}
	tasks := []*Task{a, b}
	k := len(rootSets)
	errs := make([]error, k)
	roots := make([][]*Task, k)
	done := make(chan int, k+1)
	for r := range rootSets {
		for _, i := range rootSets[r] {
			roots[r] = append(roots[r], tasks[i])
		}
		r := r
		go func() {
			errs[r] = Eval(context.Background(), l, roots[r], nil)
			done <- r
		}()
	}
	if discard {
		go func() {
			for i := zz.AnyIntIn("discardAfterYields", 0, 3); i > 0; i-- {
				runtime.Gosched()
			}
			if a.State() == TaskOk {
				zz.Reach("a result discarded while runs are in flight")
			}
			l.Discard(context.Background(), a)
			done <- -1
		}()
		<-done
	}
	for range rootSets {
		<-done
	}
	zz.Reach("all runs returned")
	for r := range rootSets {
		zz.Assert(errs[r] == nil, "without fatal errors every run succeeds")
		for _, t := range roots[r] {
			if discard && t == a {
				continue // a's own result may have been discarded after its run returned
			}
			zz.Assert(t.State() == TaskOk, "a successful run leaves its roots OK")
			zzExpectRows(l, t, keys, vals)
		}
	}
	if !discard {
		zz.Assert(attempts["b"] <= 1, "a shared task is executed by exactly one of the runs")
		want := 1
		if loseFirst {
			want = 2
		}
		zz.Assert(attempts["a"] == want, "the source runs once, plus once after its loss")
	}
}

func zzExpectRows(l *localExecutor, t *Task, keys, vals []int64) {
	rd := l.Reader(t, 0)
	buf := frame.Make(zzTyp2, 4, 4)
	var gk, gv []int64
	for it := 0; it < 8; it++ {
		n, err := rd.Read(context.Background(), buf)
		for i := 0; i < n; i++ {
			gk = append(gk, buf.Index(0, i).Int())
			gv = append(gv, buf.Index(1, i).Int())
		}
		if err == sliceio.EOF {
			break
		}
		zz.Assert(err == nil, "reading a successful run's result does not fail")
		if err != nil {
			return
		}
	}
	zz.Assert(len(gk) == len(keys), "the result has exactly the rows of a run executed alone")
	if len(gk) != len(keys) {
		return
	}
	for i := range keys {
		zz.Assert(zz.And(gk[i] == keys[i], gv[i] == vals[i]), "the result has exactly the rows of a run executed alone")
	}
}

func zzH_C19_local_sameRoot() { zzLocalRuns([][]int{{1}, {1}}, false) }
func zzH_C19_local_reuse()    { zzLocalRuns([][]int{{0}, {1}}, false) }
func zzH_C19_local_discard()  { zzLocalRuns([][]int{{1}, {1}}, true) }

func zzNewLimiter() *limiter.Limiter { return limiter.New() }
func zzBG() context.Context          { return context.Background() }
