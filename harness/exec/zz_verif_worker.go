//go:build verif

package exec

import (
	"context"
	"io"
	"strings"

	"github.com/grailbio/base/errors"
	"github.com/grailbio/bigslice/frame"
	zz "github.com/grailbio/bigslice/internal/zzverif"
	"github.com/grailbio/bigslice/sliceio"
	"github.com/grailbio/bigslice/stats"
)

// Worker side of the distributed executor: (*worker).Run for a task without
// dependencies, writing its (possibly partitioned) output into the real
// in-memory task store. The row encoder is a model that records the rows given
// to it and writes one byte per row to the real underlying writer chain
// (bufio.Writer -> store writer).

type zzEnc struct {
	w    io.Writer
	keys []int64
	vals []int64
}

var zzEncs = map[*sliceio.Encoder]*zzEnc{}
var zzEncOrder []*zzEnc
var zzEncFailAt int // if >= 0: the k-th Write of an encoder fails
var zzEncWrites int

func zzStubNewEncW(w io.Writer) *sliceio.Encoder {
	e := new(sliceio.Encoder)
	ze := &zzEnc{w: w}
	zzEncs[e] = ze
	zzEncOrder = append(zzEncOrder, ze)
	return e
}

func zzStubEncW(e *sliceio.Encoder, ctx context.Context, f frame.Frame) error {
	ze := zzEncs[e]
	if zzEncFailAt >= 0 && zzEncWrites == zzEncFailAt {
		zzEncWrites++
		return zzErrIO
	}
	zzEncWrites++
	for i := 0; i < f.Len(); i++ {
		ze.keys = append(ze.keys, f.Index(0, i).Int())
		ze.vals = append(ze.vals, f.Index(1, i).Int())
	}
	_, err := ze.w.Write(make([]byte, f.Len()))
	return err
}

// zzH_C06_workerRun: one task on a worker. A healthy run stores, for every
// partition p, exactly the rows the partitioner assigned to p in arrival order
// with the right record count; a fatal user error, a panic in user code or in
// the partitioner makes Run return a FATAL error carrying the user's message
// (so that the driver fails the task instead of retrying it); a non-fatal error
// stays non-fatal; and a failed run commits nothing.
func zzH_C06_workerRun() {
	old := *defaultChunksize
	*defaultChunksize = 2
	defer func() { *defaultChunksize = old }()
	np := zz.AnyIntIn("partitions", 1, 2)
	n := zz.AnyIntIn("rows", 0, 3)
	m := sliceio.ZZNewModel("out", n)
	m.MaxEmpty = 1
	mode := zz.AnyIntIn("failure", 0, 4)
	switch mode {
	case 1:
		m.FailAt = zz.AnyIntIn("failAt", 0, n)
		m.FailWith = errors.E(errors.Fatal, zzUserErr)
	case 2:
		m.FailAt = zz.AnyIntIn("failAt", 0, n)
		m.FailWith = errors.E(errors.Temporary, zzUserErr)
	case 3:
		m.PanicAt = zz.AnyIntIn("panicAt", 0, n) + 1
		m.PanicValue = zzUserMsg
	}
	parts := make([]int, n)
	for i := range parts {
		parts[i] = zz.AnyIntIn("part", 0, np-1)
	}
	seen := 0
	name := TaskName{InvIndex: 1, Op: "t", Shard: 0, NumShard: 1}
	task := &Task{Name: name, Type: zzTyp2, NumPartition: np}
	task.Partitioner = func(ctx context.Context, f frame.Frame, nshard int, shards []int) {
		if mode == 4 && len(shards) > 0 {
			panic(zzUserMsg)
		}
		for i := range shards {
			shards[i] = parts[seen+i]
		}
		seen += len(shards)
	}
	task.Do = func([]sliceio.Reader) sliceio.Reader { return m }
	st := newMemoryStore()
	w := &worker{
		store:     st,
		tasks:     map[uint64]map[TaskName]*Task{1: {name: task}},
		taskStats: map[uint64]map[TaskName]*stats.Map{1: {name: stats.NewMap()}},
		stats:     stats.NewMap(),
	}
	zzEncs, zzEncOrder, zzEncFailAt, zzEncWrites = map[*sliceio.Encoder]*zzEnc{}, nil, -1, 0
	var reply taskRunReply
	ctx := context.Background()
	err := w.Run(ctx, taskRunRequest{Name: name, Invocation: 1}, &reply)

	failed := false
	switch mode {
	case 1:
		if m.Failed() {
			failed = true
			zz.Reach("fatal user error")
			zz.Assert(err != nil && errors.Match(fatalErr, err), "a fatal user error is returned by the worker as a FATAL error (not downgraded to a retryable one)")
			zz.Assert(err != nil && strings.Contains(err.Error(), zzUserMsg), "the error carries the user's message")
		}
	case 2:
		if m.Failed() {
			failed = true
			zz.Reach("temporary error")
			zz.Assert(err != nil && !errors.Match(fatalErr, err), "a non-fatal error stays non-fatal")
		}
	case 3:
		if m.Panicked {
			failed = true
			zz.Reach("user panic")
			zz.Assert(err != nil && errors.Match(fatalErr, err), "a panic in user code is returned by the worker as a FATAL error")
			zz.Assert(err != nil && strings.Contains(err.Error(), zzUserMsg), "the error carries the panic value")
		}
	case 4:
		if np > 1 && n > 0 {
			failed = true
			zz.Reach("partitioner panic")
			zz.Assert(err != nil && errors.Match(fatalErr, err), "a panic in the partitioner is returned by the worker as a FATAL error")
		}
	}
	if failed {
		zz.Assert(task.state == TaskErr, "a failed run leaves the worker's task in error")
		for p := 0; p < np; p++ {
			_, serr := st.Stat(ctx, name, p)
			zz.Assert(serr != nil, "a failed run commits nothing")
		}
		return
	}
	zz.Reach("healthy run")
	zz.Assert(err == nil && task.state == TaskOk, "a healthy run succeeds")
	if err != nil {
		return
	}
	zz.Assert(len(zzEncOrder) == np, "one encoder per output partition")
	for p := 0; p < np && p < len(zzEncOrder); p++ {
		var wk, wv []int64
		for i := 0; i < n; i++ {
			if np == 1 || parts[i] == p {
				wk, wv = append(wk, m.Keys[i]), append(wv, m.Vals[i])
			}
		}
		ze := zzEncOrder[p]
		zz.Assert(len(ze.keys) == len(wk), "partition p holds exactly the rows assigned to p")
		ok := true
		for i := range ze.keys {
			if i < len(wk) {
				ok = zz.And(ok, zz.And(ze.keys[i] == wk[i], ze.vals[i] == wv[i]))
			}
		}
		zz.Assert(ok, "partition p holds its rows in arrival order")
		info, serr := st.Stat(ctx, name, p)
		zz.Assert(serr == nil && info.Records == int64(len(wk)) && info.Size == int64(len(wk)), "the committed record count and size match the rows written")
	}
	if np > 1 && n >= 3 {
		zz.Reach("partitioned, several flushes")
	}
}

// zzH_C12_workerDiscard: Discard on a worker, for a task in any state, an
// unknown task or an unknown invocation: only an OK task is affected - every
// one of its partitions disappears from the store and it ends LOST, so that a
// later Run recomputes it; running it again stores the rows again.
func zzH_C12_workerDiscard() {
	old := *defaultChunksize
	*defaultChunksize = 2
	defer func() { *defaultChunksize = old }()
	ctx := context.Background()
	np := zz.AnyIntIn("partitions", 1, 2)
	n := zz.AnyIntIn("rows", 0, 2)
	keys, vals := make([]int64, n), make([]int64, n)
	for i := range keys {
		keys[i], vals[i] = zz.AnyInt64("key"), zz.AnyInt64("val")
	}
	name := TaskName{InvIndex: 1, Op: "t", Shard: 0, NumShard: 1}
	task := &Task{Name: name, Type: zzTyp2, NumPartition: np}
	task.Partitioner = func(ctx context.Context, f frame.Frame, nshard int, shards []int) {
		for i := range shards {
			shards[i] = 0
		}
	}
	runs := 0
	task.Do = func([]sliceio.Reader) sliceio.Reader {
		runs++
		return &sliceio.ZZModelReader{Tag: "src", FailAt: -1, Keys: keys, Vals: vals, NoEOFData: true, Deterministic: true}
	}
	st := newMemoryStore()
	w := &worker{
		store:          st,
		tasks:          map[uint64]map[TaskName]*Task{1: {name: task}},
		taskStats:      map[uint64]map[TaskName]*stats.Map{1: {name: stats.NewMap()}},
		stats:          stats.NewMap(),
		combinerStates: map[TaskName]combinerState{},
	}
	zzEncs, zzEncOrder, zzEncFailAt, zzEncWrites = map[*sliceio.Encoder]*zzEnc{}, nil, -1, 0
	s := zz.AnyIntIn("state", int(TaskInit), int(TaskLost))
	if TaskState(s) == TaskOk {
		var reply taskRunReply
		zz.Assert(w.Run(ctx, taskRunRequest{Name: name, Invocation: 1}, &reply) == nil, "the first run succeeds")
		zz.Assert(task.state == TaskOk, "the first run leaves the task OK")
	} else {
		task.state = TaskState(s)
	}
	present := func(p int) bool { _, err := st.Stat(ctx, name, p); return err == nil }
	which := zz.AnyIntIn("target", 0, 2)
	target := name
	switch which {
	case 1:
		target.Op = "other"
	case 2:
		target.InvIndex = 7
	}
	before := task.state
	zz.Assert(w.Discard(ctx, target, nil) == nil, "Discard reports no error")
	if which != 0 || before != TaskOk {
		zz.Reach("nothing to discard")
		zz.Assert(task.state == before, "Discard leaves a task that is not OK (or another task) untouched")
		for p := 0; p < np; p++ {
			zz.Assert(present(p) == (before == TaskOk), "Discard of another task leaves the store untouched")
		}
		return
	}
	zz.Reach("OK task discarded")
	zz.Assert(task.state == TaskLost, "a discarded task is LOST, so a later run recomputes it")
	for p := 0; p < np; p++ {
		zz.Assert(!present(p), "every partition of a discarded task is gone from the store")
	}
	// recomputation
	zzEncOrder = nil
	var reply taskRunReply
	zz.Assert(w.Run(ctx, taskRunRequest{Name: name, Invocation: 1}, &reply) == nil, "running a discarded task again succeeds")
	zz.Assert(task.state == TaskOk && runs == 2, "the task body really runs again")
	for p := 0; p < np; p++ {
		zz.Assert(present(p), "after recomputation every partition is stored again")
	}
	if len(zzEncOrder) > 0 {
		ze := zzEncOrder[0]
		zz.Assert(len(ze.keys) == n, "the recomputed partition holds all rows")
		for i := 0; i < n && i < len(ze.keys); i++ {
			zz.Assert(zz.And(ze.keys[i] == keys[i], ze.vals[i] == vals[i]), "the recomputed partition holds the same rows")
		}
		zz.Reach("recomputed")
	}
}

// zzH_C12_discardLocalOpenReader: a reader of a result opened BEFORE the
// result is discarded on the in-process executor (a scan in progress, a later
// Func consuming it) and read on afterwards delivers either exactly the rows
// of the first evaluation or an error - never a clean end-of-stream with fewer
// rows.
func zzH_C12_discardLocalOpenReader() {
	ctx := context.Background()
	l := newLocalExecutor()
	task := &Task{Name: TaskName{Op: "t", NumShard: 1}, Type: zzTyp2, NumPartition: 1}
	task.state = TaskOk
	nf := zz.AnyIntIn("frames", 1, 2)
	var keys, vals []int64
	var fs []frame.Frame
	for i := 0; i < nf; i++ {
		n := zz.AnyIntIn("frameRows", 1, 2)
		k, v := make([]int64, n), make([]int64, n)
		for j := range k {
			k[j], v[j] = zz.AnyInt64("key"), zz.AnyInt64("val")
		}
		keys, vals = append(keys, k...), append(vals, v...)
		fs = append(fs, frame.Slices(k, v))
	}
	l.buffers[task] = taskBuffer{fs}
	rd := l.Reader(task, 0)
	before := zz.AnyIntIn("readsBeforeDiscard", 0, 2)
	var gk, gv []int64
	var err error
	read := func() {
		buf := frame.Make(zzTyp2, 1, 1)
		var n int
		n, err = rd.Read(ctx, buf)
		for i := 0; i < n; i++ {
			gk, gv = append(gk, buf.Index(0, i).Int()), append(gv, buf.Index(1, i).Int())
		}
	}
	for i := 0; i < before && err == nil; i++ {
		read()
	}
	l.Discard(ctx, task)
	zz.Assert(task.state == TaskLost, "the discarded task is LOST")
	for i := 0; i < 6 && err == nil; i++ {
		read()
	}
	if err == sliceio.EOF {
		zz.Reach("open reader drained after the discard")
		zz.Assert(len(gk) == len(keys), "a reader opened before a Discard that ends cleanly has delivered every row")
		for i := range keys {
			if i < len(gk) {
				zz.Assert(zz.And(gk[i] == keys[i], gv[i] == vals[i]), "a reader opened before a Discard delivers the rows of the first evaluation")
			}
		}
	} else {
		zz.Reach("open reader fails after the discard")
		zz.Assert(err != nil, "the reader terminates")
	}
}
