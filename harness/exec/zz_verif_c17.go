//go:build verif

package exec

import (
	"context"

	"github.com/grailbio/bigslice/frame"
	zz "github.com/grailbio/bigslice/internal/zzverif"
	"github.com/grailbio/bigslice/sliceio"
	"github.com/grailbio/bigslice/slicetype"
	"reflect"
)

var zzTyp2 = slicetype.New(reflect.TypeOf(int64(0)), reflect.TypeOf(int64(0)))

// zzMakeTaskBuffer builds a task buffer partition out of nf stored frames of
// arbitrary lengths (0..maxLen) with symbolic cells, returning the reference
// stream.
func zzMakeTaskBuffer(tag string, nf, maxLen int) (taskBuffer, []int64, []int64) {
	var fs []frame.Frame
	var keys, vals []int64
	for i := 0; i < nf; i++ {
		n := zz.AnyIntIn(tag+"_len", 0, maxLen)
		m := sliceio.ZZNewModel(tag, n)
		fs = append(fs, frame.Slices(m.Keys, m.Vals))
		keys = append(keys, m.Keys...)
		vals = append(vals, m.Vals...)
	}
	return taskBuffer{fs}, keys, vals
}

// zzH_C17_taskBuffer: the reader over stored task output delivers the stored
// frames' rows in order for every pattern of stored frame lengths (including
// empty frames) and destination sizes.
func zzH_C17_taskBuffer() {
	nf := zz.AnyIntIn("frames", 0, 3)
	b, keys, vals := zzMakeTaskBuffer("tb", nf, 2)
	r := b.Reader(0)
	d := sliceio.ZZDriveReader(r, 5, 1, 3, "dst")
	d.ZZExpect(keys, vals, "taskBuffer reader")
	if nf >= 2 {
		zz.Reach("two or more stored frames")
	}
	// an empty task buffer (no partitions) reads as empty
	var e taskBuffer
	n, err := e.Reader(0).Read(context.Background(), frame.Make(zzTyp2, 1, 1))
	zz.Assert(n == 0 && err == sliceio.EOF, "empty task buffer reads as end-of-stream")
}

// zzH_C17_execMultiReader: the executor's concatenating reader over stored
// task outputs (its only inputs: they never return rows together with EOF).
func zzH_C17_execMultiReader() {
	var q []sliceio.Reader
	var keys, vals []int64
	nr := zz.AnyIntIn("readers", 0, 3)
	for i := 0; i < nr; i++ {
		n := zz.AnyIntIn("rows", 0, 2)
		m := sliceio.ZZNewModel("in", n)
		m.MaxEmpty = 1
		m.NoEOFData = true
		q = append(q, m)
		keys = append(keys, m.Keys...)
		vals = append(vals, m.Vals...)
	}
	r := &multiReader{q: q}
	d := sliceio.ZZDriveReader(r, 5, 1, 2, "dst")
	d.ZZExpect(keys, vals, "exec.multiReader")
	if nr >= 2 {
		zz.Reach("two or more inputs")
	}
}

// zzFakeExec serves stored task buffers as an Executor for Result.open.
type zzFakeExec struct {
	Executor
	bufs map[*Task]taskBuffer
}

func (e *zzFakeExec) Reader(t *Task, partition int) sliceio.ReadCloser {
	return e.bufs[t].Reader(partition)
}

// zzH_C01_resultOpen: scanning a Result yields the concatenation of its root
// shards in shard order.
func zzH_C01_resultOpen() {
	nroot := zz.AnyIntIn("roots", 1, 2)
	ex := &zzFakeExec{bufs: map[*Task]taskBuffer{}}
	var tasks []*Task
	var keys, vals []int64
	for i := 0; i < nroot; i++ {
		t := zzTask("root")
		nf := zz.AnyIntIn("frames", 0, 2)
		b, k, v := zzMakeTaskBuffer("shard", nf, 1)
		ex.bufs[t] = b
		tasks = append(tasks, t)
		keys = append(keys, k...)
		vals = append(vals, v...)
	}
	res := &Result{tasks: tasks, sess: &Session{executor: ex}}
	r := res.open()
	d := sliceio.ZZDriveReader(r, 6, 1, 2, "dst")
	d.ZZExpect(keys, vals, "Result scan")
	if nroot >= 2 {
		zz.Reach("two or more root shards")
	}
	zz.Assert(r.Close() == nil, "closing the result reader succeeds")
}

// zzH_C01_bufferOutput: the local executor stores a task's output so that
// partition p holds exactly the rows the partitioner assigned to p, in arrival
// order (and everything in partition 0 when there is one partition).
func zzH_C01_bufferOutput() {
	old := *defaultChunksize
	*defaultChunksize = 2
	defer func() { *defaultChunksize = old }()
	np := zz.AnyIntIn("partitions", 1, 3)
	n := zz.AnyIntIn("rows", 0, 4)
	m := sliceio.ZZNewModel("out", n)
	m.MaxEmpty = 1
	task := &Task{Name: TaskName{Op: "t", NumShard: 1}, Type: zzTyp2, NumPartition: np}
	parts := make([]int, n)
	for i := range parts {
		parts[i] = zz.AnyIntIn("part", 0, np-1)
	}
	seen := 0
	task.Partitioner = func(ctx context.Context, f frame.Frame, nshard int, shards []int) {
		zz.Assert(nshard == np, "partitioner is given the task's partition count")
		for i := range shards {
			shards[i] = parts[seen+i]
		}
		seen += len(shards)
	}
	buf, err := bufferOutput(context.Background(), task, m)
	zz.Assert(err == nil, "buffering a healthy stream succeeds")
	if err != nil {
		return
	}
	zz.Assert(len(buf) == np, "one stored partition per output partition")
	for p := 0; p < np && p < len(buf); p++ {
		var wk, wv []int64
		for i := 0; i < n; i++ {
			if np == 1 || parts[i] == p {
				wk, wv = append(wk, m.Keys[i]), append(wv, m.Vals[i])
			}
		}
		var gk, gv []int64
		for _, f := range buf[p] {
			for i := 0; i < f.Len(); i++ {
				gk = append(gk, f.Index(0, i).Int())
				gv = append(gv, f.Index(1, i).Int())
			}
		}
		zz.Assert(len(gk) == len(wk), "partition holds exactly the rows assigned to it")
		ok := true
		for i := range gk {
			if i < len(wk) {
				ok = zz.And(ok, zz.And(gk[i] == wk[i], gv[i] == wv[i]))
			}
		}
		zz.Assert(ok, "partition holds its rows in arrival order")
	}
	if np > 1 && n >= 3 {
		zz.Reach("partitioned, chunk boundary crossed")
	}
}
