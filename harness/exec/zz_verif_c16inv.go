//go:build verif

package exec

import (
	"encoding/gob"
	"errors"
	"io"
	"reflect"

	"github.com/grailbio/bigslice"
	zz "github.com/grailbio/bigslice/internal/zzverif"
)

// C16: transport of an invocation (function index, direct fields, arguments)
// through execInvocation.GobEncode / GobDecode. encoding/gob itself is a MODEL:
// a tape of value tokens, with gob's documented decode-into-an-existing-value
// semantics (a slice whose capacity suffices is reused in place, zero-valued
// struct fields are not transmitted and leave the destination field as it is,
// maps are merged, an interface-typed value must be sent through a pointer to
// the interface to be received as one).

type zzGobTok struct {
	val   interface{}
	iface bool // sent as an interface value (Encode(&iface))
}

var (
	zzGobTape []zzGobTok
	zzGobPos  int
	zzGobCut  = -1 // if >= 0: the stream is truncated after this many tokens
)

type zzPair struct{ A, B int64 }

func zzStubGobNewEncoder(w io.Writer) *gob.Encoder { return new(gob.Encoder) }
func zzStubGobNewDecoder(r io.Reader) *gob.Decoder { zzGobPos = 0; return new(gob.Decoder) }

func zzStubGobEncode(e *gob.Encoder, v interface{}) error {
	switch x := v.(type) {
	case *uint64:
		zzGobTape = append(zzGobTape, zzGobTok{val: *x})
	case *bool:
		zzGobTape = append(zzGobTape, zzGobTok{val: *x})
	case *string:
		zzGobTape = append(zzGobTape, zzGobTok{val: *x})
	case *CompileEnv:
		c := CompileEnv{Writable: x.Writable, Cached: map[taskOp]bool{}}
		for k, b := range x.Cached {
			c.Cached[k] = b
		}
		zzGobTape = append(zzGobTape, zzGobTok{val: c})
	case *interface{}:
		if _, isFunc := (*x).(func()); isFunc {
			return errors.New("gob: type not registered for interface: func()")
		}
		zzGobTape = append(zzGobTape, zzGobTok{val: zzGobCopy(*x), iface: true})
	case func():
		return errors.New("gob: type func() has no exported fields / cannot be encoded")
	default:
		zzGobTape = append(zzGobTape, zzGobTok{val: zzGobCopy(v)})
	}
	return nil
}

func zzGobCopy(v interface{}) interface{} {
	if s, ok := v.([]int64); ok {
		return append([]int64(nil), s...)
	}
	return v
}

func zzGobNext() (zzGobTok, error) {
	if zzGobPos >= len(zzGobTape) || zzGobCut >= 0 && zzGobPos >= zzGobCut {
		return zzGobTok{}, io.EOF
	}
	t := zzGobTape[zzGobPos]
	zzGobPos++
	return t, nil
}

var zzErrGobType = errors.New("gob: type mismatch in decoder")

func zzStubGobDecode(d *gob.Decoder, ptr interface{}) error {
	t, err := zzGobNext()
	if err != nil {
		return err
	}
	switch p := ptr.(type) {
	case *uint64:
		v, ok := t.val.(uint64)
		if !ok {
			return zzErrGobType
		}
		*p = v
	case *bool:
		v, ok := t.val.(bool)
		if !ok {
			return zzErrGobType
		}
		*p = v
	case *string:
		v, ok := t.val.(string)
		if !ok {
			return zzErrGobType
		}
		*p = v
	case *CompileEnv:
		v, ok := t.val.(CompileEnv)
		if !ok {
			return zzErrGobType
		}
		if v.Writable { // zero-valued fields are not transmitted
			p.Writable = true
		}
		if p.Cached == nil && len(v.Cached) > 0 {
			p.Cached = map[taskOp]bool{}
		}
		for k, b := range v.Cached {
			p.Cached[k] = b
		}
	default:
		return errors.New("zz: unexpected decode target")
	}
	return nil
}

func zzStubGobDecodeValue(d *gob.Decoder, v reflect.Value) error {
	t, err := zzGobNext()
	if err != nil {
		return err
	}
	switch p := v.Interface().(type) {
	case *[]int64:
		s, ok := t.val.([]int64)
		if !ok || t.iface {
			return zzErrGobType
		}
		if cap(*p) >= len(s) { // gob reuses a slice whose capacity suffices
			*p = (*p)[:len(s)]
		} else {
			*p = make([]int64, len(s))
		}
		copy(*p, s)
	case *zzPair:
		s, ok := t.val.(zzPair)
		if !ok || t.iface {
			return zzErrGobType
		}
		if s.A != 0 { // zero-valued fields are not transmitted
			p.A = s.A
		}
		if s.B != 0 {
			p.B = s.B
		}
	case *int:
		s, ok := t.val.(int)
		if !ok || t.iface {
			return zzErrGobType
		}
		*p = s
	case *string:
		s, ok := t.val.(string)
		if !ok || t.iface {
			return zzErrGobType
		}
		*p = s
	case *interface{}:
		if !t.iface {
			return errors.New("gob: local interface type *interface {} can only be decoded from remote interface type")
		}
		*p = t.val
	default:
		return errors.New("zz: unexpected DecodeValue target")
	}
	return nil
}

var zzInvFunc = bigslice.Func(func(a, b []int64, p, q zzPair, n int, s string, x interface{}) bigslice.Slice {
	return bigslice.Const(1, []int64{0})
})

var zzInvFuncBad = bigslice.Func(func(f func(), n int) bigslice.Slice {
	return bigslice.Const(1, []int64{0})
})

func zzSymSlice(tag string, max int) []int64 {
	s := make([]int64, zz.AnyIntIn(tag+"_len", 0, max))
	for i := range s {
		s[i] = zz.AnyInt64(tag)
	}
	return s
}

// zzH_C16_invocation: an invocation with solver-chosen arguments - two slices
// of the same type (any lengths 0..2), two structs of the same type (any field
// values, zero or not), an int, a string, an interface-typed argument - and any
// Exclusive flag arrives unchanged: same function index, invocation index,
// location, flags, and every argument equal to what was sent. A stream cut
// short at any token makes GobDecode fail instead of delivering a partial
// invocation.
func zzH_C16_invocation() {
	zzGobTape, zzGobPos, zzGobCut = nil, 0, -1
	a, b := zzSymSlice("a", 2), zzSymSlice("b", 2)
	p := zzPair{zz.AnyInt64("pA"), zz.AnyInt64("pB")}
	q := zzPair{zz.AnyInt64("qA"), zz.AnyInt64("qB")}
	n := zz.AnyInt("n")
	s := "loc-" + zz.AnyStringAtom("s", 3)
	x := zz.AnyInt64("x")
	a0, b0 := append([]int64(nil), a...), append([]int64(nil), b...)
	inv := makeExecInvocation(zzInvFunc.Invocation("here:1", a, b, p, q, n, s, interface{}(x)))
	inv.Exclusive = zz.AnyBool("exclusive")
	if zz.AnyBool("cachedEntry") {
		inv.Env.MarkCached(TaskName{Op: "op"}, 1)
	}
	buf, err := inv.GobEncode()
	zz.Assert(err == nil, "an encodable invocation is encoded without error")
	if err != nil {
		return
	}
	cut := zz.AnyIntIn("truncateAt", -1, len(zzGobTape)-1)
	zzGobCut = cut
	var got execInvocation
	derr := got.GobDecode(buf)
	if cut >= 0 {
		zz.Reach("truncated stream")
		zz.Assert(derr != nil, "a truncated invocation stream is an error, never a partial invocation")
		return
	}
	zz.Reach("invocation delivered")
	zz.Assert(derr == nil, "a complete invocation stream decodes")
	if derr != nil {
		return
	}
	zz.Assert(got.Index == inv.Index && got.Func == inv.Func && got.Location == inv.Location, "function index, invocation index and location arrive unchanged")
	zz.Assert(got.Exclusive == inv.Exclusive, "the Exclusive flag arrives unchanged")
	zz.Assert(got.Env.Writable == inv.Env.Writable && len(got.Env.Cached) == len(inv.Env.Cached), "the compile environment arrives unchanged")
	zz.Assert(len(got.Args) == 7, "every argument arrives")
	if len(got.Args) != 7 {
		return
	}
	ga, ok1 := got.Args[0].([]int64)
	gb, ok2 := got.Args[1].([]int64)
	gp, ok3 := got.Args[2].(zzPair)
	gq, ok4 := got.Args[3].(zzPair)
	gn, ok5 := got.Args[4].(int)
	gs, ok6 := got.Args[5].(string)
	gx, ok7 := got.Args[6].(int64)
	zz.Assert(ok1 && ok2 && ok3 && ok4 && ok5 && ok6 && ok7, "every argument arrives with its type")
	if !(ok1 && ok2 && ok3 && ok4 && ok5 && ok6 && ok7) {
		return
	}
	zz.Assert(len(ga) == len(a0) && len(gb) == len(b0), "slice arguments arrive with their lengths")
	if len(ga) == len(a0) && len(gb) == len(b0) {
		for i := range a0 {
			zz.Assert(ga[i] == a0[i], "the first slice argument arrives with its elements")
		}
		for i := range b0 {
			zz.Assert(gb[i] == b0[i], "the second slice argument arrives with its elements")
		}
	}
	zz.Assert(zz.And(gp.A == p.A, gp.B == p.B), "the first struct argument arrives unchanged")
	zz.Assert(zz.And(gq.A == q.A, gq.B == q.B), "the second struct argument arrives unchanged")
	zz.Assert(gn == n && gs == s && gx == x, "scalar, string and interface-typed arguments arrive unchanged")
	if len(a0) > len(b0) && len(b0) > 0 {
		zz.Reach("second slice fits in the first one's capacity")
	}
}

// zzH_C16_unencodable: an argument gob cannot encode makes GobEncode return an
// error (which the executor turns into a prompt fatal task error, see C02).
func zzH_C16_unencodable() {
	zzGobTape, zzGobPos, zzGobCut = nil, 0, -1
	inv := makeExecInvocation(zzInvFuncBad.Invocation("here:2", func() {}, zz.AnyInt("n")))
	_, err := inv.GobEncode()
	zz.Assert(err != nil, "an argument that cannot be encoded is reported by GobEncode")
	zz.Reach("unencodable argument")
}
