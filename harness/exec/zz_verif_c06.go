//go:build verif

package exec

import (
	"context"
	goerrors "errors"
	"strings"

	"github.com/grailbio/base/errors"
	"github.com/grailbio/base/limiter"
	"github.com/grailbio/bigslice"
	"github.com/grailbio/bigslice/frame"
	zz "github.com/grailbio/bigslice/internal/zzverif"
	"github.com/grailbio/bigslice/slicefunc"
	"github.com/grailbio/bigslice/sliceio"
	"github.com/grailbio/bigslice/slicetype"
)

// limiter model: a token counter
var (
	zzTokens      int
	zzMaxInUse    int
	zzInUse       int
	zzAcquires    []int
	zzReleases    []int
)

func zzStubAcquire(l *limiter.Limiter, ctx context.Context, need int) error {
	zzAcquires = append(zzAcquires, need)
	zzInUse += need
	if zzInUse > zzMaxInUse {
		zzMaxInUse = zzInUse
	}
	return nil
}

func zzStubRelease(l *limiter.Limiter, n int) {
	zzReleases = append(zzReleases, n)
	zzInUse -= n
}

const zzUserMsg = "zz-user-message"

var zzUserErr = goerrors.New(zzUserMsg)

type zzExclPragma struct{ excl bool }

func (p zzExclPragma) Procs() int        { return 1 }
func (p zzExclPragma) Exclusive() bool   { return p.excl }
func (p zzExclPragma) Materialize() bool { return false }

// zzH_C06_localRun: one task on the in-process executor whose pipeline fails
// at an arbitrary row with a fatal user error, a temporary error or a panic,
// or whose partitioner panics / returns an out-of-range shard. No panic escapes
// Run; the task ends ERR carrying the user's message for fatal errors and
// panics, LOST for non-fatal errors, OK otherwise; and the concurrency limiter
// is released exactly once with what was acquired (one token, or all of them
// for an exclusive task).
func zzH_C06_localRun() { zzLocalRun(false) }

// zzH_C06_localRunScan: the same for a zero-column (Scan) task.
func zzH_C06_localRunScan() { zzLocalRun(true) }

func zzLocalRun(zeroCols bool) {
	old := *defaultChunksize
	*defaultChunksize = 2
	defer func() { *defaultChunksize = old }()
	p := zz.AnyIntIn("parallelism", 1, 3)
	excl := zz.AnyBool("exclusive")
	l := newLocalExecutor()
	l.sess = &Session{p: p}
	zzInUse, zzMaxInUse, zzAcquires, zzReleases = 0, 0, nil, nil
	n := zz.AnyIntIn("rows", 0, 3)
	m := sliceio.ZZNewModel("out", n)
	m.MaxEmpty = 1
	mode := zz.AnyIntIn("failure", 0, 5)
	np := 1
	if !zeroCols {
		np = zz.AnyIntIn("partitions", 1, 2)
	}
	var typ slicetype.Type = zzTyp2
	if zeroCols {
		typ = slicetype.New()
	}
	task := &Task{Name: TaskName{Op: "t", NumShard: 1}, Type: typ, NumPartition: np, Pragma: zzExclPragma{excl}}
	task.state = TaskWaiting
	partMode := 0
	switch mode {
	case 1: // fatal user error (as wrapped by ReaderFunc/WriterFunc)
		m.FailAt = zz.AnyIntIn("failAt", 0, n)
		m.FailWith = errors.E(errors.Fatal, zzUserErr)
	case 2: // non-fatal (temporary) error
		m.FailAt = zz.AnyIntIn("failAt", 0, n)
		m.FailWith = errors.E(errors.Temporary, zzUserErr)
	case 3: // user code panics
		m.PanicAt = zz.AnyIntIn("panicAt", 0, n) + 1
		m.PanicValue = zzUserMsg
	case 4: // partitioner panics
		partMode = 1
	case 5: // partitioner returns an out-of-range shard
		partMode = 2
	}
	task.Partitioner = func(ctx context.Context, f frame.Frame, nshard int, shards []int) {
		if len(shards) == 0 {
			return
		}
		switch partMode {
		case 1:
			panic(zzUserMsg)
		case 2:
			shards[0] = nshard + zz.AnyIntIn("outOfRange", 0, 1)*(-nshard-1) // nshard or -1
		}
	}
	var rd sliceio.Reader = m
	if zeroCols {
		rd = &zzScanLike{m}
	}
	task.Do = func([]sliceio.Reader) sliceio.Reader { return rd }

	l.Run(task)

	st := task.state
	zz.Assert(st == TaskOk || st == TaskErr || st == TaskLost, "after Run the task is in state OK, ERR or LOST")
	want := 1
	if excl {
		want = p
	}
	zz.Assert(len(zzAcquires) == 1 && zzAcquires[0] == want, "a task acquires one token, an exclusive task all of them")
	zz.Assert(len(zzReleases) == 1 && zzReleases[0] == want && zzInUse == 0, "the limiter is released exactly once with what was acquired")
	failed := false
	switch mode {
	case 1:
		if m.Failed() {
			failed = true
			zz.Reach("fatal user error")
			zz.Assert(st == TaskErr, "a fatal user error fails the task")
		}
	case 2:
		if m.Failed() {
			failed = true
			zz.Reach("temporary error")
			zz.Assert(st == TaskLost, "a non-fatal error marks the task LOST (bounded retries by the evaluator)")
		}
	case 3:
		if m.Panicked {
			failed = true
			zz.Reach("user panic")
			zz.Assert(st == TaskErr, "a panic in user code fails the task")
		}
	case 4, 5:
		if np > 1 && n > 0 && !zeroCols {
			failed = true
			zz.Reach("partitioner failure")
			zz.Assert(st == TaskErr, "a panicking or out-of-range partitioner fails the task")
		}
	}
	if failed && st == TaskErr && mode != 5 {
		zz.Assert(task.err != nil && strings.Contains(task.err.Error(), zzUserMsg), "the task error carries the user's message")
	}
	if !failed {
		zz.Reach("healthy run")
		zz.Assert(st == TaskOk, "a healthy run ends OK")
	}
}

// zzScanLike mimics Scan's reader: it consumes its whole input on the first
// Read (with an empty frame) and reports EOF or the input's error.
type zzScanLike struct{ in sliceio.Reader }

func (s *zzScanLike) Read(ctx context.Context, out frame.Frame) (int, error) {
	buf := frame.Make(zzTyp2, 2, 2)
	for {
		_, err := s.in.Read(ctx, buf)
		if err != nil {
			return 0, err
		}
	}
}

var _ = bigslice.HashShard

// ---------------------------------------------------------------------
// C12: Discard kernels

// zzH_C12_discardLocal: Discard on the in-process executor, for a task in any
// state: an OK task ends LOST with its buffer dropped; others are untouched.
func zzH_C12_discardLocal() {
	l := newLocalExecutor()
	task := &Task{Name: TaskName{Op: "t", NumShard: 1}}
	s := zz.AnyInt("state")
	zz.Assume(zz.And(s >= int(TaskInit), s <= int(TaskLost)))
	task.state = TaskState(s)
	l.buffers[task] = taskBuffer{}
	shared := zz.AnyBool("sharedCombiner")
	if shared {
		task.Combiner, _ = zzAddFunc()
		task.CombineKey = "ck"
	}
	before := task.state
	l.Discard(context.Background(), task)
	_, has := l.buffers[task]
	if shared {
		zz.Reach("shared combiner untouched")
		zz.Assert(task.state == before && has, "tasks with shared combiners are left alone")
		return
	}
	if before == TaskOk {
		zz.Reach("discarded")
		zz.Assert(task.state == TaskLost && !has, "discarding an OK task drops its storage and marks it LOST")
	} else {
		zz.Reach("not ok untouched")
		zz.Assert(task.state == before && has, "discarding a task that is not OK changes nothing")
	}
	zz.Assert(task.state != TaskRunning || before == TaskRunning, "Discard never leaves a task RUNNING")
}

// zzH_C12_discardRemote: Discard on the distributed executor (RPC stubbed):
// an OK task owned by its machine ends LOST and unassigned; it is never left
// RUNNING, whatever the RPC returns.
func zzH_C12_discardRemote() {
	mach := &sliceMachine{Machine: nil, tasks: map[*Task]struct{}{}}
	b := &bigmachineExecutor{locations: map[*Task]*sliceMachine{}}
	task := &Task{Name: TaskName{Op: "t", NumShard: 1}}
	s := zz.AnyInt("state")
	zz.Assume(zz.And(s >= int(TaskInit), s <= int(TaskLost)))
	task.state = TaskState(s)
	// established by Run: an OK task has a location and is assigned there
	b.locations[task] = mach
	mach.tasks[task] = struct{}{}
	zzDiscardErr = zzMakeErr(zz.AnyIntIn("rpcErr", 0, zzErrKinds-1))
	defer func() { zzDiscardErr = nil }()
	if zzDiscardErr != nil {
		zz.Reach("the discard RPC fails")
	}
	before := task.state
	b.Discard(context.Background(), task)
	_, owned := mach.tasks[task]
	if before == TaskOk {
		zz.Reach("discarded")
		zz.Assert(task.state == TaskLost, "discarding an OK task marks it LOST")
		zz.Assert(!owned, "a discarded task is unassigned from its machine")
	} else {
		zz.Reach("not ok untouched")
		zz.Assert(task.state == before && owned, "discarding a task that is not OK changes nothing")
	}
	zz.Assert(task.state != TaskRunning || before == TaskRunning, "Discard never leaves a task RUNNING")
}

func zzAddFunc() (slicefunc.Func, bool) { return slicefunc.Of(zzAdd64) }

// zzH_C06_localRunLostDep: a task whose combined dependency has lost its
// output (discarded or never stored): reading the dependency fails before the
// task body runs. The task must end LOST (so that the evaluator recomputes the
// dependency) and the limiter must still be released.
func zzH_C06_localRunLostDep() {
	zzRegisterKey()
	zzConstHash = true
	defer func() { zzConstHash = false }()
	old := *defaultChunksize
	*defaultChunksize = 2
	defer func() { *defaultChunksize = old }()
	p := zz.AnyIntIn("parallelism", 1, 3)
	excl := zz.AnyBool("exclusive")
	l := newLocalExecutor()
	l.sess = &Session{p: p}
	zzInUse, zzMaxInUse, zzAcquires, zzReleases = 0, 0, nil, nil
	fn, _ := zzAddFunc()
	dep := &Task{Name: TaskName{Op: "dep", NumShard: 1}, Type: zzCombTyp, NumPartition: 1, Combiner: fn, state: TaskOk}
	stored := zz.AnyBool("depOutputStored")
	if stored {
		n := zz.AnyIntIn("rows", 0, 2)
		ks, vs := make([]zzKey, n), make([]int64, n)
		for i := range ks {
			ks[i], vs[i] = zzKey(zz.AnyInt64("key")), zz.AnyInt64("val")
		}
		l.buffers[dep] = taskBuffer{{frame.Slices(ks, vs)}}
	}
	task := &Task{Name: TaskName{Op: "t", NumShard: 1}, Type: zzCombTyp, NumPartition: 1, Pragma: zzExclPragma{excl}, Deps: []TaskDep{{Head: dep}}}
	task.state = TaskWaiting
	task.Do = func(in []sliceio.Reader) sliceio.Reader { return in[0] }
	l.Run(task)
	want := 1
	if excl {
		want = p
	}
	zz.Assert(len(zzAcquires) == 1 && zzAcquires[0] == want, "a task acquires one token, an exclusive task all of them")
	zz.Assert(len(zzReleases) == 1 && zzReleases[0] == want && zzInUse == 0, "the limiter is released exactly once with what was acquired, also when reading a dependency fails")
	if stored {
		zz.Reach("dependency read")
		zz.Assert(task.state == TaskOk, "a task with a readable combined dependency succeeds")
	} else {
		zz.Reach("dependency output lost")
		zz.Assert(task.state == TaskLost, "a task whose dependency output is gone is LOST, not failed")
	}
}

func zzPanicAdd64(a, b int64) int64 { panic(zzUserMsg) }

// zzH_C06_localRunCombinerPanic: a task on the in-process executor whose
// dependency carries a reduce combiner supplied by the user, which panics when
// two rows with the same key meet. The panic must not escape Run (it would take
// the driver process down): the task ends in error carrying the panic value,
// and the limiter is released.
func zzH_C06_localRunCombinerPanic() {
	zzRegisterKey()
	zzConstHash = true
	defer func() { zzConstHash = false }()
	old := *defaultChunksize
	*defaultChunksize = 2
	defer func() { *defaultChunksize = old }()
	l := newLocalExecutor()
	l.sess = &Session{p: 1}
	zzInUse, zzMaxInUse, zzAcquires, zzReleases = 0, 0, nil, nil
	fn, _ := slicefunc.Of(zzPanicAdd64)
	dep := &Task{Name: TaskName{Op: "dep", NumShard: 1}, Type: zzCombTyp, NumPartition: 1, Combiner: fn, state: TaskOk}
	n := zz.AnyIntIn("rows", 0, 3)
	ks, vs := make([]zzKey, n), make([]int64, n)
	for i := range ks {
		ks[i], vs[i] = zzKey(zz.AnyInt64("key")), zz.AnyInt64("val")
	}
	dup := false
	for i := range ks {
		for j := 0; j < i; j++ {
			dup = zz.Or(dup, ks[i] == ks[j])
		}
	}
	l.buffers[dep] = taskBuffer{{frame.Slices(ks, vs)}}
	task := &Task{Name: TaskName{Op: "t", NumShard: 1}, Type: zzCombTyp, NumPartition: 1, Pragma: zzExclPragma{false}, Deps: []TaskDep{{Head: dep}}}
	task.state = TaskWaiting
	task.Do = func(in []sliceio.Reader) sliceio.Reader { return in[0] }
	l.Run(task)
	zz.Assert(len(zzReleases) == 1 && zzInUse == 0, "the limiter is released exactly once, also when the combiner panics")
	if dup {
		zz.Reach("combiner called and panicked")
		zz.Assert(task.state == TaskErr, "a panic in the user's combiner fails the task")
		zz.Assert(task.err != nil && strings.Contains(task.err.Error(), zzUserMsg), "the error carries the panic value")
	} else {
		zz.Reach("no two rows share a key")
		zz.Assert(task.state == TaskOk, "without equal keys the combiner is never called and the task succeeds")
	}
}
