//go:build verif

package exec

import (
	"context"
	"fmt"
	"reflect"

	"github.com/grailbio/bigslice"
	"github.com/grailbio/bigslice/frame"
	zz "github.com/grailbio/bigslice/internal/zzverif"
	"github.com/grailbio/bigslice/internal/slicecache"
	"github.com/grailbio/bigslice/slicefunc"
	"github.com/grailbio/bigslice/sliceio"
	"github.com/grailbio/bigslice/slicetype"
)

// Model implementations of bigslice.Slice: configurations of the compiler.
type zzSlice struct {
	slicetype.Type
	name   string
	nshard int
	deps   []bigslice.Dep
	comb   slicefunc.Func
	reads  *int // counts Reader invocations (upstream execution)
}

func (s *zzSlice) Name() bigslice.Name             { return bigslice.Name{Op: s.name, File: "zz.go", Line: 1} }
func (s *zzSlice) NumShard() int                   { return s.nshard }
func (s *zzSlice) ShardType() bigslice.ShardType   { return bigslice.HashShard }
func (s *zzSlice) NumDep() int                     { return len(s.deps) }
func (s *zzSlice) Dep(i int) bigslice.Dep          { return s.deps[i] }
func (s *zzSlice) Combiner() slicefunc.Func        { return s.comb }
func (s *zzSlice) Reader(shard int, deps []sliceio.Reader) sliceio.Reader {
	if s.reads != nil {
		*s.reads++
	}
	return sliceio.EmptyReader{}
}

// zzMatSlice is a slice with the Materialize pragma.
type zzMatSlice struct {
	*zzSlice
	bigslice.Pragma
}

// zzCachedSlice is a slice with a shard cache.
type zzCachedSlice struct {
	*zzSlice
	cache slicecache.ShardCache
}

func (c *zzCachedSlice) Cache() slicecache.ShardCache { return c.cache }

type zzShardCache struct {
	cached []bool
	reads  int
}

func (c *zzShardCache) IsCached(shard int) bool { return c.cached[shard] }
func (c *zzShardCache) WritethroughReader(shard int, r sliceio.Reader) sliceio.Reader {
	return r
}
func (c *zzShardCache) CacheReader(shard int) sliceio.Reader { c.reads++; return sliceio.EmptyReader{} }

func zzCustomPartitioner(ctx context.Context, f frame.Frame, nshard int, shards []int) {}

// zzMarkPartitioner returns partitioners that are closures of ONE function
// literal (like the ones bigslice.Repartition builds) and differ only in the
// captured id, which they report through shards[0].
//go:noinline
func zzMarkPartitioner(id int) bigslice.Partitioner {
	return func(ctx context.Context, f frame.Frame, nshard int, shards []int) {
		if len(shards) > 0 {
			shards[0] = id
		}
	}
}

func zzPartitionerID(p bigslice.Partitioner) int {
	out := []int{-1}
	p(context.Background(), frame.Empty, 1, out)
	return out[0]
}

var zzTyp1 = slicetype.New(reflect.TypeOf(int64(0)), reflect.TypeOf(int64(0)))

func zzNShard(tag string) int {
	n := zz.AnyInt(tag)
	zz.Assume(zz.And(n >= 1, n <= 3))
	return zz.Concrete(n)
}

func zzMkSlice(name string, nshard int, deps ...bigslice.Dep) *zzSlice {
	return &zzSlice{Type: zzTyp1, name: name, nshard: nshard, deps: deps}
}

// zzAllTasks collects the reachable task graph, checking acyclicity.
func zzAllTasks(roots []*Task) []*Task {
	var all []*Task
	state := map[*Task]int{} // 1 = on stack, 2 = done
	var visit func(t *Task)
	visit = func(t *Task) {
		if state[t] == 2 {
			return
		}
		zz.Assert(state[t] != 1, "the task graph is acyclic")
		if state[t] == 1 {
			return
		}
		state[t] = 1
		for _, d := range t.Deps {
			for i := 0; i < d.NumTask(); i++ {
				visit(d.Task(i))
			}
		}
		state[t] = 2
		all = append(all, t)
	}
	for _, t := range roots {
		visit(t)
	}
	return all
}

// zzCheckGraph asserts well-formedness of a compiled graph.
func zzCheckGraph(roots []*Task, rootShards int, machineCombiners bool) []*Task {
	zz.Assert(len(roots) == rootShards, "one root task per result shard")
	all := zzAllTasks(roots)
	names := map[TaskName]bool{}
	for _, t := range all {
		zz.Assert(!names[t.Name], "task names are unique")
		names[t.Name] = true
	}
	for _, t := range all {
		for _, d := range t.Deps {
			zz.Assert(d.Head != nil, "a dependency has a head task")
			if d.Head == nil {
				continue
			}
			if len(d.Head.Group) > 0 {
				zz.Reach("shuffle dependency")
				g := d.Head.Group
				zz.Assert(g[0] == d.Head, "a shuffle dependency refers to the head of its producer group")
				zz.Assert(d.Partition == t.Name.Shard, "shard p of a shuffle consumer reads partition p")
				for _, p := range g {
					zz.Assert(p.NumPartition == t.Name.NumShard, "producer partition count equals the consumer's shard count")
					zz.Assert(p.NumPartition <= 1 || p.Partitioner != nil, "a task with several partitions has a partitioner")
					zz.Assert(len(p.Group) == len(g), "all producers of a shuffle form one group")
					zz.Assert(p.CombineKey == d.CombineKey, "combine key is identical on producer and dependency")
					zz.Assert((p.CombineKey != "") == (!p.Combiner.IsNil() && machineCombiners), "combine key is set iff there is a combiner and machine combiners are on")
				}
			} else {
				zz.Reach("aligned dependency")
				zz.Assert(d.Partition == 0, "a non-shuffle dependency reads partition 0")
				zz.Assert(d.Head.Name.Shard == t.Name.Shard && d.Head.Name.NumShard == t.Name.NumShard, "non-shuffle dependencies are shard-aligned")
				zz.Assert(d.Head.NumPartition == 1, "a task read without shuffle has one partition")
			}
		}
		// pipelining never crosses a shuffle, a multi-dependency slice, a
		// Materialize pragma or a reused result
		for i := 0; i+1 < len(t.Slices); i++ {
			s, next := t.Slices[i], t.Slices[i+1]
			zz.Assert(s.NumDep() == 1 && !s.Dep(0).Shuffle, "a pipeline is not extended across a shuffle or multi-input slice")
			if pr, ok := next.(bigslice.Pragma); ok {
				zz.Assert(!pr.Materialize(), "a pipeline is not extended across a Materialize pragma")
			}
			_, isRes := bigslice.Unwrap(next).(*Result)
			zz.Assert(!isRes, "a pipeline is not extended into a reused result")
		}
	}
	return all
}

// zzSameGraph asserts that two compilations are pointwise equal.
func zzSameGraph(a, b []*Task) {
	zz.Assert(len(a) == len(b), "recompilation yields the same number of root tasks")
	if len(a) != len(b) {
		return
	}
	seen := map[*Task]*Task{}
	var eq func(x, y *Task)
	eq = func(x, y *Task) {
		if z, ok := seen[x]; ok {
			zz.Assert(z == y, "recompilation preserves task sharing")
			return
		}
		seen[x] = y
		zz.Assert(x.Name == y.Name, "recompilation yields identical task names")
		zz.Assert(x.NumPartition == y.NumPartition && x.CombineKey == y.CombineKey && len(x.Deps) == len(y.Deps) && len(x.Group) == len(y.Group), "recompilation yields identical partition counts, combine keys and wiring")
		if len(x.Deps) != len(y.Deps) {
			return
		}
		for i := range x.Deps {
			dx, dy := x.Deps[i], y.Deps[i]
			zz.Assert(dx.Partition == dy.Partition && dx.Expand == dy.Expand && dx.CombineKey == dy.CombineKey && dx.NumTask() == dy.NumTask(), "recompilation yields identical dependencies")
			if dx.NumTask() != dy.NumTask() {
				return
			}
			for k := 0; k < dx.NumTask(); k++ {
				eq(dx.Task(k), dy.Task(k))
			}
		}
	}
	for i := range a {
		eq(a[i], b[i])
	}
}

func zzInv(index uint64) execInvocation {
	return makeExecInvocation(bigslice.Invocation{Index: index, Location: "zz.go:1"})
}

// zzH_C08_chain: A <- B <- C where each edge is a shuffle or not, B may carry
// the Materialize pragma, the B<-A shuffle may use a custom partitioner and a
// combiner; machine combiners on or off; shard counts symbolic.
func zzH_C08_chain() {
	na := zzNShard("nA")
	sh1, sh2 := zz.AnyBool("shuffleBA"), zz.AnyBool("shuffleCB")
	nb, nc := na, 0
	if sh1 {
		nb = zzNShard("nB")
	}
	nc = nb
	if sh2 {
		nc = zzNShard("nC")
	}
	mc := zz.AnyBool("machineCombiners")
	a := zzMkSlice("a", na)
	depA := bigslice.Dep{Slice: a, Shuffle: sh1}
	if sh1 && zz.AnyBool("customPartitioner") {
		depA.Partitioner = zzCustomPartitioner
		zz.Reach("custom partitioner")
	}
	b := zzMkSlice("b", nb, depA)
	if sh1 && zz.AnyBool("combiner") {
		b.comb, _ = slicefunc.Of(zzAdd64)
		zz.Reach("combiner")
	}
	var bs bigslice.Slice = b
	if zz.AnyBool("materializeB") {
		bs = &zzMatSlice{b, bigslice.ExperimentalMaterialize}
		zz.Reach("materialize")
	}
	c := zzMkSlice("c", nc, bigslice.Dep{Slice: bs, Shuffle: sh2})
	tasks, err := compile(zzInv(1), c, mc)
	zz.Assert(err == nil, "compilation succeeds")
	if err != nil {
		return
	}
	all := zzCheckGraph(tasks, nc, mc)
	// one task per shard of each pipeline stage
	stages := 1
	if sh1 {
		stages++
	}
	if sh2 || bs != bigslice.Slice(b) {
		stages++
	}
	want := nc
	if sh2 || bs != bigslice.Slice(b) {
		want += nb
		if sh1 {
			want += na
		}
	} else if sh1 {
		want += na
	}
	zz.Assert(len(all) == want, "one task per shard of each pipeline stage")
	tasks2, err2 := compile(zzInv(1), c, mc)
	zz.Assert(err2 == nil, "recompilation succeeds")
	zzSameGraph(tasks, tasks2)
	_ = stages
}

// zzH_C08_shared: a sub-slice A consumed by B and C with (possibly) different
// shard counts, joined by a two-input slice D.
func zzH_C08_shared() {
	na := zzNShard("nA")
	nd := zzNShard("nD")
	shB, shC := zz.AnyBool("shuffleB"), zz.AnyBool("shuffleC")
	nb, nc := na, na
	if shB {
		nb = zzNShard("nB")
	}
	if shC {
		nc = zzNShard("nC")
	}
	a0 := zzMkSlice("a", na)
	var a bigslice.Slice = a0
	matA := zz.AnyBool("materializeA")
	if matA {
		// a materialized shared slice is compiled on its own also for a
		// non-shuffle consumer
		a = &zzMatSlice{a0, bigslice.ExperimentalMaterialize}
		zz.Reach("materialized shared slice")
	}
	depB, depC := bigslice.Dep{Slice: a, Shuffle: shB}, bigslice.Dep{Slice: a, Shuffle: shC}
	custom := shB && shC && zz.AnyBool("customPartitioners")
	if custom {
		// two repartitionings of the same slice with DIFFERENT functions
		depB.Partitioner, depC.Partitioner = zzMarkPartitioner(101), zzMarkPartitioner(202)
	}
	b := zzMkSlice("b", nb, depB)
	c := zzMkSlice("c", nc, depC)
	d := zzMkSlice("d", nd, bigslice.Dep{Slice: b, Shuffle: true, Expand: true}, bigslice.Dep{Slice: c, Shuffle: true, Expand: true})
	tasks, err := compile(zzInv(2), d, false)
	zz.Assert(err == nil, "compilation succeeds")
	if err != nil {
		return
	}
	zzCheckGraph(tasks, nd, false)
	if shB && shC && nb != nc {
		zz.Reach("shared slice with two partition counts")
	}
	if custom {
		zz.Reach("two custom partitioners on one slice")
		pb := tasks[0].Deps[0].Head.Deps[0].Head
		pc := tasks[0].Deps[1].Head.Deps[0].Head
		zz.Assert(zzPartitionerID(pb.Partitioner) == 101 && zzPartitionerID(pc.Partitioner) == 202, "each consumer's producers use that consumer's partitioner")
	}
	if shB && shC && nb == nc && !custom {
		zz.Reach("shared slice compiled once")
		// memoised: B's and C's tasks depend on the very same A tasks
		zz.Assert(tasks[0].Deps[0].Head.Deps[0].Head == tasks[0].Deps[1].Head.Deps[0].Head, "a shared sub-slice with the same partition count is compiled once")
	}
	tasks2, _ := compile(zzInv(2), d, false)
	zzSameGraph(tasks, tasks2)
}

// zzH_C12_result: a Result of an earlier invocation used (a) pipelined and
// (b) under a shuffle by a later invocation.
func zzH_C12_result() {
	nr := zzNShard("nResult")
	r0 := zzMkSlice("r", nr)
	rtasks, err := compile(zzInv(1), r0, false)
	zz.Assert(err == nil, "compilation succeeds")
	res := &Result{Slice: r0, tasks: rtasks}
	shuffle := zz.AnyBool("shuffle")
	nb := nr
	if shuffle {
		nb = zzNShard("nConsumer")
	}
	var view bigslice.Slice = res
	wantPrefix := 1
	if zz.AnyBool("prefixedView") {
		// the consumer redistributes the result by a different key prefix
		view = bigslice.Prefixed(res, 2)
		wantPrefix = 2
		zz.Reach("result used through a re-prefixed view")
	}
	b := zzMkSlice("b", nb, bigslice.Dep{Slice: view, Shuffle: shuffle})
	if shuffle && zz.AnyBool("twoShuffleConsumers") {
		// the same result redistributed twice in one invocation (e.g. two
		// Reshards with different shard counts), joined afterwards
		nc := zzNShard("nConsumer2")
		c := zzMkSlice("c", nc, bigslice.Dep{Slice: res, Shuffle: true})
		nd := zzNShard("nJoin")
		d := zzMkSlice("d", nd, bigslice.Dep{Slice: b, Shuffle: true, Expand: true}, bigslice.Dep{Slice: c, Shuffle: true, Expand: true})
		dtasks, derr := compile(zzInv(2), d, false)
		zz.Assert(derr == nil, "compilation with a twice-redistributed result succeeds")
		if derr == nil {
			zz.Reach("result redistributed twice")
			zzCheckGraph(dtasks, nd, false)
		}
		return
	}
	tasks, err := compile(zzInv(2), b, false)
	zz.Assert(err == nil, "compilation with a result argument succeeds")
	if err != nil {
		return
	}
	zzCheckGraph(tasks, nb, false)
	if !shuffle {
		zz.Reach("result used pipelined")
		for i, t := range tasks {
			zz.Assert(len(t.Deps) == 1 && t.Deps[0].Head == rtasks[i], "a pipelined use reads exactly the result's tasks")
		}
	} else {
		zz.Reach("result used under a shuffle")
		g := tasks[0].Deps[0].Head.Group
		zz.Assert(len(g) == nr, "one re-shuffle task per result task")
		for i, p := range g {
			zz.Assert(len(p.Deps) == 1 && p.Deps[0].Head == rtasks[i] && p.Deps[0].Partition == 0, "a re-shuffle task reads its result task")
			zz.Assert(p.Prefix() == wantPrefix, "a re-shuffle task partitions by the key prefix of the slice the consumer depends on")
		}
	}
	tasks2, _ := compile(zzInv(2), b, false)
	zzSameGraph(tasks, tasks2)
}

// zzH_C13_compileCache: for a cached (task, op) the task has no dependencies
// and its Do never invokes the upstream Reader; uncached shards are computed;
// a read-only Env (as on a worker) replays the driver's decisions.
func zzH_C13_compileCache() {
	n := zzNShard("nshard")
	reads := 0
	a := zzMkSlice("a", n)
	a.reads = &reads
	cache := &zzShardCache{cached: make([]bool, n)}
	for i := range cache.cached {
		cache.cached[i] = zz.AnyBool("cached")
	}
	b := zzMkSlice("b", n, bigslice.Dep{Slice: a})
	b.reads = &reads
	var cs bigslice.Slice = &zzCachedSlice{b, cache}
	if zz.AnyBool("prefixedCache") {
		cs = bigslice.Prefixed(cs, 1)
		zz.Reach("cache operator under Prefixed")
	}
	inv := zzInv(3)
	tasks, err := compile(inv, cs, false)
	zz.Assert(err == nil, "compilation succeeds")
	if err != nil {
		return
	}
	for i, t := range tasks {
		before := reads
		cr := cache.reads
		t.Do(nil)
		if cache.cached[i] {
			zz.Reach("cached shard")
			zz.Assert(t.Deps == nil, "a cached shard has no dependencies")
			zz.Assert(reads == before, "a cached shard does not run its upstream computation")
			zz.Assert(cache.reads == cr+1, "a cached shard is read from the cache")
		} else {
			zz.Reach("uncached shard")
			zz.Assert(reads == before+2, "an uncached shard runs the pipelined upstream computation")
			zz.Assert(cache.reads == cr, "an uncached shard is not read from the cache")
		}
	}
	// worker view: frozen env, cache reports nothing
	inv.Env.Freeze()
	for i := range cache.cached {
		cache.cached[i] = false
	}
	wtasks, werr := compile(inv, cs, false)
	zz.Assert(werr == nil, "worker-side compilation succeeds")
	zzSameGraph(tasks, wtasks)
	for i, t := range wtasks {
		zz.Assert((t.Deps == nil) == (tasks[i].Deps == nil), "a worker replays the driver's cache decisions")
	}
	_ = fmt.Sprint
}
