//go:build verif

package exec

import (
	"errors"

	zz "github.com/grailbio/bigslice/internal/zzverif"
)

// A concrete graph shape; everything else (initial states, outcomes,
// interference) is symbolic.
type zzGraph struct {
	tasks []*Task
	roots []*Task
}

func zzTask(name string, deps ...TaskDep) *Task {
	return &Task{Name: TaskName{Op: name, Shard: 0, NumShard: 1}, Deps: deps}
}

func zzDep(t *Task) TaskDep { return TaskDep{Head: t} }

func zzShape(k int) zzGraph {
	switch k {
	case 0: // chain a <- b <- c
		a := zzTask("a")
		b := zzTask("b", zzDep(a))
		c := zzTask("c", zzDep(b))
		return zzGraph{[]*Task{a, b, c}, []*Task{c}}
	case 1: // diamond
		a := zzTask("a")
		b := zzTask("b", zzDep(a))
		c := zzTask("c", zzDep(a))
		d := zzTask("d", zzDep(b), zzDep(c))
		return zzGraph{[]*Task{a, b, c, d}, []*Task{d}}
	case 2: // two roots sharing a dependency
		a := zzTask("a")
		b := zzTask("b", zzDep(a))
		c := zzTask("c", zzDep(a))
		return zzGraph{[]*Task{a, b, c}, []*Task{b, c}}
	case 3: // 2x2 shuffle: producers form a group, consumers read one partition each
		p0, p1 := zzTask("p0"), zzTask("p1")
		g := []*Task{p0, p1}
		p0.Group, p1.Group = g, g
		c0 := zzTask("c0", TaskDep{Head: p0, Partition: 0})
		c1 := zzTask("c1", TaskDep{Head: p0, Partition: 1})
		return zzGraph{[]*Task{p0, p1, c0, c1}, []*Task{c0, c1}}
	case 4: // phase -> phase: a source, a shuffled phase, and a root group
		s := zzTask("s")
		p0, p1 := zzTask("p0", zzDep(s)), zzTask("p1", zzDep(s))
		g := []*Task{p0, p1}
		p0.Group, p1.Group = g, g
		c0 := zzTask("c0", TaskDep{Head: p0, Partition: 0})
		return zzGraph{[]*Task{s, p0, p1, c0}, []*Task{c0}}
	case 7: // a shuffle-producer group whose members have their OWN (different) dependencies
		a0, a1 := zzTask("a0"), zzTask("a1")
		p0, p1 := zzTask("p0", zzDep(a0)), zzTask("p1", zzDep(a1))
		g := []*Task{p0, p1}
		p0.Group, p1.Group = g, g
		c0 := zzTask("c0", TaskDep{Head: p0, Partition: 0})
		return zzGraph{[]*Task{a0, a1, p0, p1, c0}, []*Task{c0}}
	case 9: // a root without dependencies next to a root with one: r0 ; d <- r1
		r0, dd := zzTask("r0"), zzTask("d")
		r1 := zzTask("r1", zzDep(dd))
		return zzGraph{[]*Task{r0, dd, r1}, []*Task{r0, r1}}
	case 8: // two independent tasks
		t, x := zzTask("t"), zzTask("x")
		return zzGraph{[]*Task{t, x}, []*Task{t, x}}
	case 5: // single task
		a := zzTask("a")
		return zzGraph{[]*Task{a}, []*Task{a}}
	case 6: // chain of two
		a := zzTask("a")
		b := zzTask("b", zzDep(a))
		return zzGraph{[]*Task{a, b}, []*Task{b}}
	}
	panic("no such shape")
}

func zzInSet(ts []*Task, t *Task) bool {
	for _, u := range ts {
		if u == t {
			return true
		}
	}
	return false
}

// zzDepsOK is the term "every dependency task of t is in state OK".
func zzDepsOK(t *Task) bool {
	ok := true
	for _, d := range t.Deps {
		for i := 0; i < d.NumTask(); i++ {
			ok = zz.And(ok, d.Task(i).state == TaskOk)
		}
	}
	return ok
}

// zzNeeded is the term "t is needed by the roots": there is a dependency path
// from a root to t on which every task other than t is not OK.
func zzNeeded(g zzGraph, t *Task) bool {
	// tasks are listed dependencies-first; compute from the roots downwards.
	need := make([]bool, len(g.tasks))
	for i := len(g.tasks) - 1; i >= 0; i-- {
		u := g.tasks[i]
		n := false
		for _, r := range g.roots {
			if zzInSet(r.Phase(), u) {
				n = true
			}
		}
		for j := i + 1; j < len(g.tasks); j++ {
			p := g.tasks[j]
			dependsOn := false
			for _, d := range p.Deps {
				for k := 0; k < d.NumTask(); k++ {
					if d.Task(k) == u {
						dependsOn = true
					}
				}
			}
			if dependsOn {
				n = zz.Or(n, zz.And(need[j], p.state != TaskOk))
			}
		}
		need[i] = n
		if u == t {
			return n
		}
	}
	return false
}

func zzRootsOK(g zzGraph) bool {
	ok := true
	for _, r := range g.roots {
		for _, t := range r.Phase() {
			ok = zz.And(ok, t.state == TaskOk)
		}
	}
	return ok
}

func zzH_C03_state_chain()    { zzEvalHarness(0, 3, true) }
func zzH_C03_state_diamond()  { zzEvalHarness(1, 3, true) }
func zzH_C03_state_tworoots() { zzEvalHarness(2, 3, true) }
func zzH_C03_state_shuffle()  { zzEvalHarness(3, 2, true) }
func zzH_C03_state_phases()   { zzEvalHarness(4, 2, true) }
func zzH_C03_state_single()   { zzEvalHarness(5, 3, true) }
func zzH_C03_state_groupdeps() { zzEvalHarness(7, 2, false) }
func zzH_C03_deep_groupdeps()  { zzEvalHarness(7, 3, true) }

func zzH_C03_deep_chain()    { zzEvalHarness(0, 5, true) }
func zzH_C03_deep_single()   { zzEvalHarness(5, 6, true) }
func zzH_C03_deep_diamond()  { zzEvalHarness(1, 4, true) }
func zzH_C03_deep_tworoots() { zzEvalHarness(2, 5, true) }
func zzH_C03_deep_shuffle()  { zzEvalHarness(3, 3, true) }
func zzH_C03_deep_phases()   { zzEvalHarness(4, 4, true) }

var zzErrTask = errors.New("zz: task failed")

// zzEvalHarness drives the evaluator's bookkeeping (state) exactly as Eval's
// loop does, with symbolic initial task states, symbolic outcomes of handed-out
// tasks, and symbolic interference by other evaluators and machine loss.
func zzEvalHarness(shape, depth int, interference bool) {
	g := zzShape(shape)
	for _, t := range g.tasks {
		s := zz.AnyInt("initState")
		zz.Assume(zz.And(s >= int(TaskInit), s <= int(TaskLost)))
		t.state = TaskState(s)
		t.err = zzErrTask // defined whenever state == TaskErr
	}
	st := newState()
	var handed []*Task // handed out by Runnable and not yet returned
	errReturned := false
	for step := 0; ; step++ {
		for _, r := range g.roots {
			st.Enqueue(r)
		}
		// ---- quiescent point: obligations on the evaluator's view ----
		if st.Done() {
			if st.Err() == nil {
				zz.Reach("success")
				zz.Assert(zzRootsOK(g), "success is reported only when every root task is OK")
			} else {
				zz.Reach("error")
				anyErr := false
				for _, t := range g.tasks {
					anyErr = zz.Or(anyErr, t.state == TaskErr)
				}
				zz.Assert(anyErr, "an error is reported only when some needed task is in error")
			}
			return
		}
		zz.Assert(zz.Not(errReturned), "a fatal task error ends the evaluation")
		if !st.Todo() {
			// Eval blocks on donec here: something must be outstanding.
			zz.Assert(len(handed) > 0, "never idle with work outstanding")
			if len(handed) == 0 {
				return
			}
		}
		// Eval: `for !Done && !Todo { Return(<-donec) }` then hand out Runnable.
		if st.Todo() {
			for _, t := range st.Runnable() {
				zz.Assert(!zzInSet(handed, t), "no task is handed out twice at the same time")
				handed = append(handed, t)
				// Eval's loop body
				if t.state == TaskLost {
					zz.Reach("resubmit lost task")
					t.state = TaskInit
				}
				if t.state == TaskInit {
					// this evaluator is the runner: the task goes to the executor
					zz.Assert(zzDepsOK(t), "a task is handed to the executor only when all its dependencies are OK")
					zz.Assert(zzNeeded(g, t), "only tasks the roots need are run")
					t.state = TaskWaiting
					zz.Reach("task run")
				} else {
					zz.Reach("task awaited")
				}
			}
			continue
		}
		if step >= depth {
			zz.Reach("depth bound")
			return
		}
		// ---- one event: a handed-out task reaches a final state ----
		k := zz.AnyIntIn("which", 0, len(handed)-1)
		t := handed[k]
		handed = append(handed[:k:k], handed[k+1:]...)
		out := zz.AnyInt("outcome")
		zz.Assume(zz.Or(out == int(TaskOk), zz.Or(out == int(TaskErr), out == int(TaskLost))))
		// a task another evaluator completed earlier keeps its final state
		if t.state == TaskOk || t.state == TaskErr || t.state == TaskLost {
			zz.Reach("already final when awaited")
		} else {
			t.state = TaskState(out)
		}
		if interference {
			// Snapshot "dependencies OK" before anything changes: another
			// evaluator obeys the same ready-only rule.
			ready := make([]bool, len(g.tasks))
			for i, u := range g.tasks {
				ready[i] = zzDepsOK(u)
			}
			for i, u := range g.tasks {
				if u == t || zzInSet(handed, u) {
					continue
				}
				// A completed output may be lost (machine loss) at any time; an
				// idle task whose dependencies are OK may be picked up and driven
				// to any later state by another evaluator.
				n := zz.AnyInt("interfere")
				old := int(u.state)
				legal := zz.Or(n == old,
					zz.Or(zz.And(old == int(TaskOk), n == int(TaskLost)),
						zz.And(zz.And(ready[i], zz.Or(old == int(TaskInit), old == int(TaskLost))),
							zz.And(n >= int(TaskWaiting), n <= int(TaskLost)))))
				zz.Assume(legal)
				u.state = TaskState(n)
			}
		}
		if t.state == TaskErr {
			errReturned = true
			zz.Reach("task error returned")
		} else if t.state == TaskLost {
			zz.Reach("task lost returned")
		}
		wasErr := t.state == TaskErr
		st.Return(t)
		if wasErr {
			zz.Assert(st.Err() != nil, "a fatally failed task makes the evaluation report an error")
		}
	}
}
