//go:build verif

package exec

import (
	"github.com/grailbio/bigmachine"
	zz "github.com/grailbio/bigslice/internal/zzverif"
)

// zzReqLE reports (as a term) whether request key (p1,c1) sorts at or before
// (p2,c2): priority ascending, procs descending.
func zzReqLE(p1, c1, p2, c2 int) bool {
	return zz.Or(p1 < p2, zz.And(p1 == p2, c1 >= c2))
}

// zzSort3Req sorts up to 3 request keys with a branch-free network.
func zzSort3Req(n int, p, c []int) {
	cx := func(i, j int) {
		le := zzReqLE(p[i], c[i], p[j], c[j])
		pi, ci := zz.IteInt(le, p[i], p[j]), zz.IteInt(le, c[i], c[j])
		pj, cj := zz.IteInt(le, p[j], p[i]), zz.IteInt(le, c[j], c[i])
		p[i], c[i], p[j], c[j] = pi, ci, pj, cj
	}
	if n >= 2 {
		cx(0, 1)
	}
	if n >= 3 {
		cx(1, 2)
		cx(0, 1)
	}
}

// zzSort3Desc sorts up to 3 ints descending, branch-free.
func zzSort3Desc(n int, f []int) {
	cx := func(i, j int) {
		ge := f[i] >= f[j]
		a, b := zz.IteInt(ge, f[i], f[j]), zz.IteInt(ge, f[j], f[i])
		f[i], f[j] = a, b
	}
	if n >= 2 {
		cx(0, 1)
	}
	if n >= 3 {
		cx(1, 2)
		cx(0, 1)
	}
}

// zzH_C14_schedule: for every valid heap state of the request queue and the
// machine queue (sizes up to the bound), schedule() returns exactly what the
// documented first-fit-with-reservation algorithm prescribes, never
// oversubscribes the machine, and leaves both queues valid heaps over the same
// elements with consistent index fields.
func zzH_C14_schedule() { zzScheduleHarness(3, 3) }

func zzH_C14_schedule_small() { zzScheduleHarness(2, 2) }

func zzScheduleHarness(maxR, maxM int) {
	nr := zz.AnyIntIn("nreq", 0, maxR)
	nm := zz.AnyIntIn("nmach", 0, maxM)
	const B = 1 << 20 // magnitude bound: excludes only int overflow of the sums
	var schedQ scheduleRequestQ
	var machQ machineQ
	reqs := make([]*scheduleRequest, nr)
	for i := 0; i < nr; i++ {
		r := &scheduleRequest{priority: zz.AnyInt("prio"), procs: zz.AnyInt("procs"), index: i}
		zz.Assume(zz.And(r.priority >= -B, r.priority <= B))
		zz.Assume(zz.And(r.procs >= 1, r.procs <= B)) // Offer panics on procs<=0
		reqs[i] = r
		schedQ = append(schedQ, r)
	}
	machs := make([]*sliceMachine, nm)
	for i := 0; i < nm; i++ {
		m := &sliceMachine{maxTaskProcs: zz.AnyInt("maxTaskProcs"), taskProcs: zz.AnyInt("taskProcs"), index: i}
		zz.Assume(zz.And(m.maxTaskProcs >= 1, m.maxTaskProcs <= B))
		zz.Assume(zz.And(m.taskProcs >= 0, m.taskProcs <= m.maxTaskProcs))
		machs[i] = m
		machQ = append(machQ, m)
	}
	// arbitrary valid heaps: no child sorts strictly before its parent.
	for i := 1; i < nr; i++ {
		zz.Assume(zz.Not(schedQ.Less(i, (i-1)/2)))
	}
	for i := 1; i < nm; i++ {
		zz.Assume(zz.Not(machQ.Less(i, (i-1)/2)))
	}

	// reference: sorted keys.
	rp, rc := make([]int, 3), make([]int, 3)
	for i := 0; i < nr; i++ {
		rp[i], rc[i] = reqs[i].priority, reqs[i].procs
	}
	zzSort3Req(nr, rp, rc)
	mf := make([]int, 3)
	for i := 0; i < nm; i++ {
		mf[i] = machs[i].maxTaskProcs - machs[i].taskProcs
	}
	zzSort3Desc(nm, mf)
	k := nr
	if nm < k {
		k = nm
	}
	// found: a pair is granted; stopped: search ended.
	found, stopped := false, false
	wantProcs, wantPrio, wantFree := 0, 0, 0
	for i := 0; i < k; i++ {
		full := mf[i] == 0
		fits := rc[i] <= mf[i]
		hit := zz.And(zz.Not(stopped), zz.And(zz.Not(full), fits))
		wantProcs = zz.IteInt(hit, rc[i], wantProcs)
		wantPrio = zz.IteInt(hit, rp[i], wantPrio)
		wantFree = zz.IteInt(hit, mf[i], wantFree)
		found = zz.Or(found, hit)
		stopped = zz.Or(stopped, zz.Or(full, fits))
	}

	req, mach := schedule(&schedQ, &machQ)

	if req == nil {
		zz.Reach("nothing schedulable")
		zz.Assert(mach == nil, "nil request comes with nil machine")
		zz.Assert(zz.Not(found), "a request that fits per the documented algorithm is granted")
	} else {
		zz.Reach("granted")
		zz.Assert(mach != nil, "granted request comes with a machine")
		zz.Assert(found, "grant only when the documented algorithm grants")
		free := mach.maxTaskProcs - mach.taskProcs
		zz.Assert(req.procs <= free, "no oversubscription: procs fit in the machine's free capacity")
		zz.Assert(zz.And(req.priority == wantPrio, req.procs == wantProcs), "granted request is the documented one (priority, then larger first)")
		zz.Assert(free == wantFree, "machine is the documented one (least loaded not reserved)")
		zz.Assert(zz.And(req.index >= 0, req.index < len(schedQ)), "granted request still queued with valid index")
		if req.index >= 0 && req.index < len(schedQ) {
			zz.Assert(schedQ[req.index] == req, "request index points at the request")
		}
		if mach.index >= 0 && mach.index < len(machQ) {
			zz.Assert(machQ[mach.index] == mach, "machine index points at the machine")
		} else {
			zz.Assert(false, "granted machine still queued with valid index")
		}
	}
	// queues restored
	zz.Assert(len(schedQ) == nr, "request queue keeps its size")
	zz.Assert(len(machQ) == nm, "machine queue keeps its size")
	if len(schedQ) == nr && len(machQ) == nm {
		for i := 0; i < nr; i++ {
			zz.Assert(schedQ[i].index == i, "request index field consistent")
			cnt := 0
			for j := 0; j < nr; j++ {
				if schedQ[j] == reqs[i] {
					cnt++
				}
			}
			zz.Assert(cnt == 1, "every request is in the queue exactly once")
		}
		for i := 0; i < nm; i++ {
			zz.Assert(machQ[i].index == i, "machine index field consistent")
			cnt := 0
			for j := 0; j < nm; j++ {
				if machQ[j] == machs[i] {
					cnt++
				}
			}
			zz.Assert(cnt == 1, "every machine is in the queue exactly once")
		}
		for i := 1; i < nr; i++ {
			zz.Assert(zz.Not(schedQ.Less(i, (i-1)/2)), "request queue is a heap afterwards")
		}
		for i := 1; i < nm; i++ {
			zz.Assert(zz.Not(machQ.Less(i, (i-1)/2)), "machine queue is a heap afterwards")
		}
	}
	if nr >= 2 && nm >= 2 {
		zz.Reach("two or more of each")
	}
}

// zzSystem is a model bigmachine.System reporting an arbitrary Maxprocs.
type zzSystem struct {
	bigmachine.System
	maxprocs int
}

func (s *zzSystem) Maxprocs() int { return s.maxprocs }

var zzTheSystem *zzSystem

func zzStubBSystem(b *bigmachine.B) bigmachine.System { return zzTheSystem }

// zzH_C14_managerCapacity: a machine's task capacity is the max-load share of
// its procs and at least one, for every machine size and every max-load in
// [0,1]; with max-load 0 the parallelism limit is converted to whole machines.
func zzH_C14_managerCapacity() {
	mp := zz.AnyInt("maxprocs")
	zz.Assume(zz.And(mp >= 1, mp <= 1<<16))
	load := zz.AnyFloat64("maxLoad")
	zz.Assume(zz.And(load >= 0, load <= 1))
	maxp := zz.AnyInt("parallelism")
	zz.Assume(zz.And(maxp >= 1, maxp <= 1<<20))
	zzTheSystem = &zzSystem{maxprocs: mp}
	m := newMachineManager(&bigmachine.B{}, nil, nil, maxp, load, nil)
	zz.Assert(m.machprocs >= 1, "every machine can run at least one task proc")
	zz.Assert(m.machprocs <= mp, "task capacity never exceeds the machine's procs")
	if m.machprocs > 1 {
		zz.Reach("fractional capacity")
		zz.Assert(m.maxp == maxp, "the parallelism limit is kept when machines are shared")
	} else {
		zz.Reach("capacity one")
	}
}
