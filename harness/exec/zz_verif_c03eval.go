//go:build verif

package exec

import (
	"context"
	"net/http"

	"github.com/grailbio/base/eventlog"
	zz "github.com/grailbio/bigslice/internal/zzverif"
	"github.com/grailbio/bigslice/sliceio"
)

// zzRunExec is an executor whose task outcomes are solver-chosen; it checks
// the evaluator's obligations at the moment a task is handed to it. Used with
// the engine's cooperative goroutine scheduler, so the whole of Eval - its
// goroutines, donec/errc plumbing and Task.Wait wake-ups - runs for real.
type zzRunExec struct {
	g        zzGraph
	running  map[*Task]bool
	runs     map[*Task]int
	maxLost  int
	lost     int
	ranOrder []*Task
}

func (e *zzRunExec) Name() string                        { return "zz" }
func (e *zzRunExec) Start(*Session) func()               { return nil }
func (e *zzRunExec) Reader(*Task, int) sliceio.ReadCloser { return nil }
func (e *zzRunExec) Discard(context.Context, *Task)      {}
func (e *zzRunExec) Eventer() eventlog.Eventer           { return eventlog.Nop{} }
func (e *zzRunExec) HandleDebug(*http.ServeMux)          {}

func (e *zzRunExec) Run(t *Task) {
	zz.Assert(!e.running[t], "no task is handed to the executor twice at the same time")
	e.running[t] = true
	e.runs[t]++
	for _, d := range t.Deps {
		for i := 0; i < d.NumTask(); i++ {
			zz.Assert(d.Task(i).State() == TaskOk, "a task is handed to the executor only when all its dependencies are OK")
		}
	}
	zz.Assert(t.State() == TaskWaiting, "tasks are handed over in state WAITING")
	t.Set(TaskRunning)
	// the outcome is a solver variable (0 ok, 1 fatal, 2 lost; losses bounded)
	out := zz.AnyInt("outcome")
	zz.Assume(zz.And(out >= 0, out <= 2))
	if e.lost >= e.maxLost {
		zz.Assume(out != 2)
	}
	e.running[t] = false
	if out == 0 {
		t.Set(TaskOk)
	} else if out == 1 {
		zz.Reach("task failed fatally")
		t.Error(zzErrTask)
	} else {
		e.lost++
		zz.Reach("task lost")
		t.Set(TaskLost)
	}
}

// zzH_C03_evalWhole: the complete Eval (goroutines included) over small graphs
// with solver-chosen task outcomes (success, fatal error, loss - a bounded
// number of losses): Eval terminates; it returns nil only if every root is OK;
// it returns an error if some task failed fatally; lost tasks are resubmitted;
// readiness and no-double-run hold at every hand-over.
func zzH_C03_evalWhole_chain()   { zzEvalWhole(6, 1) }
func zzH_C03_evalWhole_diamond() { zzEvalWhole(1, 1) }
func zzH_C03_evalWhole_shuffle() { zzEvalWhole(3, 1) }

func zzEvalWhole(shape, maxLost int) {
	g := zzShape(shape)
	ex := &zzRunExec{g: g, running: map[*Task]bool{}, runs: map[*Task]int{}, maxLost: maxLost}
	err := Eval(context.Background(), ex, g.roots, nil)
	anyErr := false
	for _, t := range g.tasks {
		if t.state == TaskErr {
			anyErr = true
		}
	}
	if err == nil {
		zz.Reach("eval succeeded")
		for _, r := range g.roots {
			for _, t := range r.Phase() {
				zz.Assert(t.state == TaskOk, "Eval reports success only when every root is OK")
			}
		}
		zz.Assert(!anyErr, "Eval does not report success when a task failed fatally")
	} else {
		zz.Reach("eval failed")
		zz.Assert(anyErr, "Eval reports an error only when a task failed fatally")
	}
	if ex.lost > 0 && err == nil {
		zz.Reach("lost task resubmitted")
	}
}

// zzLateLossExec is zzRunExec plus "later loss of an already completed task":
// when a task is handed over, one task that had completed OK earlier may (by a
// solver-chosen flag, once) be marked LOST first - as when the machine holding
// its output dies while other work is still outstanding.
type zzLateLossExec struct {
	zzRunExec
	lateLosses int
}

func (e *zzLateLossExec) Run(t *Task) {
	zz.Assert(!e.running[t], "no task is handed to the executor twice at the same time")
	e.running[t] = true
	e.runs[t]++
	for _, d := range t.Deps {
		for i := 0; i < d.NumTask(); i++ {
			zz.Assert(d.Task(i).State() == TaskOk, "a task is handed to the executor only when all its dependencies are OK")
		}
	}
	zz.Assert(t.State() == TaskWaiting, "tasks are handed over in state WAITING")
	t.Set(TaskRunning)
	// while t is running (so before Eval can learn that t completed), a task
	// that had completed earlier is lost
	if e.lateLosses == 0 {
		// (only roots: nothing depends on them, so no task that was handed
		// over while they were OK can find them lost when it starts)
		for _, u := range e.g.roots {
			if u != t && u.State() == TaskOk && zz.AnyBool("loseCompletedTask") {
				e.lateLosses++
				zz.Reach("a completed task was lost while other work was outstanding")
				u.Set(TaskLost)
				break
			}
		}
	}
	e.running[t] = false
	t.Set(TaskOk)
}

// zzH_C03_evalWhole_lateLoss: the whole Eval over two roots (independent, or
// sharing a dependency) where a task that already completed may be lost while
// another is being handed out: Eval still reports success only with every root
// OK (it must notice and recompute the lost root).
func zzH_C03_evalWhole_lateLoss_independent() { zzEvalWholeLate(8) }
func zzH_C03_evalWhole_lateLoss_shared()      { zzEvalWholeLate(2) }

// a root that completed is seen OK by a later scheduling round (another root's
// dependency completed) and is lost only after that
func zzH_C03_evalWhole_lateLoss_afterRound() { zzEvalWholeLate(9) }

func zzEvalWholeLate(shape int) {
	g := zzShape(shape)
	ex := &zzLateLossExec{zzRunExec: zzRunExec{g: g, running: map[*Task]bool{}, runs: map[*Task]int{}, maxLost: 0}}
	err := Eval(context.Background(), ex, g.roots, nil)
	anyErr := false
	for _, t := range g.tasks {
		if t.state == TaskErr {
			anyErr = true
		}
	}
	if err == nil {
		zz.Reach("eval succeeded")
		for _, r := range g.roots {
			for _, t := range r.Phase() {
				zz.Assert(t.state == TaskOk, "Eval reports success only when every root is OK (a root lost after completing is recomputed)")
			}
		}
		zz.Assert(!anyErr, "Eval does not report success when a task failed fatally")
	} else {
		zz.Reach("eval failed")
		zz.Assert(anyErr, "Eval reports an error only when a task failed fatally")
	}
}
