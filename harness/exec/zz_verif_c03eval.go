//go:build verif

package exec

import (
	"context"
	"net/http"

	"github.com/grailbio/base/eventlog"
	zz "github.com/grailbio/bigslice/internal/zzverif"
	"github.com/grailbio/bigslice/sliceio"
)

// zzRunExec is an executor whose task outcomes are solver-chosen; it checks
// the evaluator's obligations at the moment a task is handed to it. Used with
// the engine's cooperative goroutine scheduler, so the whole of Eval - its
// goroutines, donec/errc plumbing and Task.Wait wake-ups - runs for real.
type zzRunExec struct {
	g        zzGraph
	running  map[*Task]bool
	runs     map[*Task]int
	maxLost  int
	lost     int
	ranOrder []*Task
}

func (e *zzRunExec) Name() string                        { return "zz" }
func (e *zzRunExec) Start(*Session) func()               { return nil }
func (e *zzRunExec) Reader(*Task, int) sliceio.ReadCloser { return nil }
func (e *zzRunExec) Discard(context.Context, *Task)      {}
func (e *zzRunExec) Eventer() eventlog.Eventer           { return eventlog.Nop{} }
func (e *zzRunExec) HandleDebug(*http.ServeMux)          {}

func (e *zzRunExec) Run(t *Task) {
	zz.Assert(!e.running[t], "no task is handed to the executor twice at the same time")
	e.running[t] = true
	e.runs[t]++
	for _, d := range t.Deps {
		for i := 0; i < d.NumTask(); i++ {
			zz.Assert(d.Task(i).State() == TaskOk, "a task is handed to the executor only when all its dependencies are OK")
		}
	}
	zz.Assert(t.State() == TaskWaiting, "tasks are handed over in state WAITING")
	t.Set(TaskRunning)
	// the outcome is a solver variable (0 ok, 1 fatal, 2 lost; losses bounded)
	out := zz.AnyInt("outcome")
	zz.Assume(zz.And(out >= 0, out <= 2))
	if e.lost >= e.maxLost {
		zz.Assume(out != 2)
	}
	e.running[t] = false
	if out == 0 {
		t.Set(TaskOk)
	} else if out == 1 {
		zz.Reach("task failed fatally")
		t.Error(zzErrTask)
	} else {
		e.lost++
		zz.Reach("task lost")
		t.Set(TaskLost)
	}
}

// zzH_C03_evalWhole: the complete Eval (goroutines included) over small graphs
// with solver-chosen task outcomes (success, fatal error, loss - a bounded
// number of losses): Eval terminates; it returns nil only if every root is OK;
// it returns an error if some task failed fatally; lost tasks are resubmitted;
// readiness and no-double-run hold at every hand-over.
func zzH_C03_evalWhole_chain()   { zzEvalWhole(6, 1) }
func zzH_C03_evalWhole_diamond() { zzEvalWhole(1, 1) }
func zzH_C03_evalWhole_shuffle() { zzEvalWhole(3, 1) }

func zzEvalWhole(shape, maxLost int) {
	g := zzShape(shape)
	ex := &zzRunExec{g: g, running: map[*Task]bool{}, runs: map[*Task]int{}, maxLost: maxLost}
	err := Eval(context.Background(), ex, g.roots, nil)
	anyErr := false
	for _, t := range g.tasks {
		if t.state == TaskErr {
			anyErr = true
		}
	}
	if err == nil {
		zz.Reach("eval succeeded")
		for _, r := range g.roots {
			for _, t := range r.Phase() {
				zz.Assert(t.state == TaskOk, "Eval reports success only when every root is OK")
			}
		}
		zz.Assert(!anyErr, "Eval does not report success when a task failed fatally")
	} else {
		zz.Reach("eval failed")
		zz.Assert(anyErr, "Eval reports an error only when a task failed fatally")
	}
	if ex.lost > 0 && err == nil {
		zz.Reach("lost task resubmitted")
	}
}
