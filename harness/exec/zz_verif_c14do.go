//go:build verif

package exec

import (
	"context"
	"runtime"

	"github.com/grailbio/base/status"
	"github.com/grailbio/bigmachine"
	zz "github.com/grailbio/bigslice/internal/zzverif"
	"github.com/grailbio/bigslice/stats"
)

// Environment of a live machine manager (run under the engine's cooperative
// goroutine scheduler): machines are started by a stub, stop when the harness
// closes their stop channel, and timers may fire at any time.

var (
	zzDoStops    = map[*bigmachine.Machine]chan struct{}{}
	zzDoMachines []*sliceMachine
	zzDoStarts   int // machines requested from the system so far
	zzDoStopped  = map[*sliceMachine]bool{}
)

func zzStubStartMachines(ctx context.Context, b *bigmachine.B, group *status.Group, maxTaskProcs int, n int, worker *worker, params ...bigmachine.Param) []*sliceMachine {
	zzDoStarts += n
	var out []*sliceMachine
	for i := 0; i < n; i++ {
		bm := &bigmachine.Machine{Addr: "zz-machine"}
		zzDoStops[bm] = make(chan struct{})
		sm := &sliceMachine{Machine: bm, Stats: stats.NewMap(), Status: new(status.Task), maxTaskProcs: maxTaskProcs, tasks: map[*Task]struct{}{}}
		zzDoByStatus[sm.Status] = sm
		zzDoMachines = append(zzDoMachines, sm)
		out = append(out, sm)
	}
	return out
}

func zzStubMachineWait(m *bigmachine.Machine, state bigmachine.State) <-chan struct{} {
	return zzDoStops[m]
}

func zzStubMachineErr(m *bigmachine.Machine) error { return nil }

// zzTryRecv receives a machine from an offer channel if one is offered now.
func zzTryRecv(c <-chan *sliceMachine) *sliceMachine {
	select {
	case m := <-c:
		return m
	default:
		return nil
	}
}

// zzCheckGrant asserts what must hold whenever the manager grants a machine.
func zzCheckGrant(m *sliceMachine, procs int) {
	// the stop of a machine reaches the manager asynchronously; once the
	// manager has processed it (the machine was seen marked lost), the machine
	// must never be granted again
	zz.Assert(!zzDoStopSeen[m], "a machine whose stop the manager has processed receives no new work")
	zz.Assert(m.health == machineOk, "a machine on probation (or lost) receives no new work")
	// environment-side accounting: procs granted and not yet returned
	zzDoHeld[m] += procs
	zz.Assert(zzDoHeld[m] <= m.maxTaskProcs, "the procs assigned to a machine never exceed its task capacity")
}

var zzDoHeld = map[*sliceMachine]int{}
var zzDoByStatus = map[*status.Task]*sliceMachine{}

// The manager marks a machine's status done exactly when it processes the
// machine's stop: that is the observable "the manager knows it stopped".
func zzStubStatusDone(t *status.Task) {
	if m := zzDoByStatus[t]; m != nil {
		zzDoStopSeen[m] = true
	}
}
var zzDoStopSeen = map[*sliceMachine]bool{}

// zzLetManagerRun yields to the manager's goroutines and notes which stopped
// machines it has marked lost.
func zzLetManagerRun() {
	for k := 0; k < 3; k++ {
		runtime.Gosched()
	}
}

func zzDone(m *sliceMachine, procs int, err error) {
	zzDoHeld[m] -= procs
	m.Done(procs, err)
}

// zzH_C14_doLifecycle: a live manager (its real Do loop with its goroutines)
// through the life of one machine: a task is granted, returns with success, a
// remote (application) error or a transport error (probation); the machine may
// then stop; a second request follows. At every grant: never a stopped machine,
// never one on probation, never beyond capacity; the system is asked for no more
// machines than demand justifies.
func zzH_C14_doLifecycle() {
	const machprocs = 2
	m := &machineManager{machprocs: machprocs, maxp: 2, schedc: make(chan *scheduleRequest), unschedc: make(chan *scheduleRequest)}
	ctx, cancel := context.WithCancel(context.Background())
	go m.Do(ctx)
	p1 := zz.AnyIntIn("procs1", 1, machprocs)
	c1, _ := m.Offer(0, p1)
	m1 := <-c1
	zz.Reach("first grant")
	zzCheckGrant(m1, p1)
	zz.Assert(zzDoStarts == 1, "one machine is started for a demand of at most one machine")
	// the task ends
	var derr error
	switch zz.AnyIntIn("doneErr", 0, 2) {
	case 1:
		derr = zzMakeErr(zzErrRemotePlain)
	case 2:
		derr = zzMakeErr(zzErrNet)
		zz.Reach("transport error: probation")
	}
	zzDone(m1, p1, derr)
	if zz.AnyBool("machineStops") {
		zzDoStopped[m1] = true
		close(zzDoStops[m1.Machine])
		zz.Reach("machine stopped")
	}
	if zz.AnyBool("managerRunsBeforeNextRequest") {
		zzLetManagerRun()
		if zzDoStopSeen[m1] {
			zz.Reach("manager processed the stop")
		}
	}
	// a second request: it may be served by the same machine, by a
	// replacement, or stay queued while the machine is on probation
	p2 := zz.AnyIntIn("procs2", 1, machprocs)
	c2, cancel2 := m.Offer(1, p2)
	for spin := 0; spin < 3; spin++ {
		if m2 := zzTryRecv(c2); m2 != nil {
			zz.Reach("second grant")
			zzCheckGrant(m2, p2)
			if m2 != m1 {
				zz.Reach("replacement machine")
			}
			zzDone(m2, p2, nil)
			break
		}
		zzLetManagerRun()
		// a no-op request/cancel pair is a rendezvous with the manager
		cx, cancelx := m.Offer(9, 1)
		cancelx()
		if mx := zzTryRecv(cx); mx != nil {
			zzCheckGrant(mx, 1)
			zzDone(mx, 1, nil)
		}
	}
	cancel2()
	zz.Assert(zzDoStarts <= 2, "no more machines are started than demand and replacements justify")
	cancel()
}

// zzH_C14_doLostInFlight: a machine stops while a task is still running on it
// and the manager processes the stop before the task's Done report arrives
// (hung or partitioned worker). The procs of that task must still be taken off
// the demand: when the task is resubmitted, exactly the machines the new
// request needs are started -- no machine for the dead task's stale demand.
func zzH_C14_doLostInFlight() {
	const machprocs = 2
	m := &machineManager{machprocs: machprocs, maxp: 6, schedc: make(chan *scheduleRequest), unschedc: make(chan *scheduleRequest)}
	ctx, cancel := context.WithCancel(context.Background())
	go m.Do(ctx)
	p1 := zz.AnyIntIn("procs1", 1, machprocs)
	c1, _ := m.Offer(0, p1)
	m1 := <-c1
	zzCheckGrant(m1, p1)
	zz.Assert(zzDoStarts == 1, "one machine is started for a demand of at most one machine")
	// the machine dies with the task in flight
	zzDoStopped[m1] = true
	close(zzDoStops[m1.Machine])
	doneFirst := zz.AnyBool("doneReportBeforeStopIsProcessed")
	if doneFirst {
		zzDone(m1, p1, zzMakeErr(zzErrNet))
	}
	for k := 0; k < 3 && !zzDoStopSeen[m1]; k++ {
		zzLetManagerRun()
	}
	zz.Assert(zzDoStopSeen[m1], "the manager processes the stop of a machine")
	if !doneFirst {
		zz.Reach("done report from a machine already marked lost")
		zzDone(m1, p1, zzMakeErr(zzErrNet))
	}
	zzLetManagerRun()
	// (while the dead machine's task had not reported yet its procs were still
	// demand, so a replacement may already have been started: that is justified)
	if doneFirst {
		zz.Assert(zzDoStarts == 1, "no machine is started while there is no demand")
	}
	// the task is resubmitted
	p2 := zz.AnyIntIn("procs2", 1, machprocs)
	c2, cancel2 := m.Offer(0, p2)
	var m2 *sliceMachine
	for spin := 0; spin < 4 && m2 == nil; spin++ {
		if m2 = zzTryRecv(c2); m2 == nil {
			zzLetManagerRun()
		}
	}
	zz.Assert(m2 != nil, "a queued request is granted once a replacement machine is available")
	if m2 != nil {
		zz.Reach("replacement grant")
		zz.Assert(m2 != m1, "a stopped machine receives no new work")
		zzCheckGrant(m2, p2)
		zzDone(m2, p2, nil)
	}
	zzLetManagerRun()
	cancel2()
	zz.Assert(zzDoStarts == 2, "exactly one replacement machine is started: no more machines than demand justifies")
	cancel()
}
