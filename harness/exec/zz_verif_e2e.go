//go:build verif

package exec

import (
	"context"
	"fmt"

	"github.com/grailbio/bigslice"
	"github.com/grailbio/bigslice/frame"
	"github.com/grailbio/bigslice/internal/slicecache"
	zz "github.com/grailbio/bigslice/internal/zzverif"
	"github.com/grailbio/bigslice/sliceio"
)

// End-to-end harnesses: a program built from the REAL public operators is
// invoked through the REAL Session.Run (Func invocation, compile, Eval with
// its goroutines, the in-process executor with its buffers, partitioning and
// combining) and its result is read through the REAL Result.Scanner. Row
// cells are solver variables; shard counts, the session's parallelism and the
// internal vector size are small solver-chosen integers.

func zzUFMap(k, v int64) (int64, int64) { return k, zz.UFInt64("e2e.F", k, v) }
func zzUFKeep(k, v int64) bool          { return zz.UFBool("e2e.P", k, v) }

var zzE2EMapFilter = bigslice.Func(func(nshard int, keys, vals []int64) bigslice.Slice {
	s := bigslice.Const(nshard, keys, vals)
	s = bigslice.Map(s, zzUFMap)
	s = bigslice.Filter(s, zzUFKeep)
	return s
})

var zzE2EReduce = bigslice.Func(func(nshard, nred int, keys, vals []int64) bigslice.Slice {
	s := bigslice.Const(nshard, keys, vals)
	s = bigslice.Reshard(s, nred)
	return bigslice.Reduce(s, zzAdd64)
})

func zzE2ESession() *Session {
	return Start(Local, Parallelism(zz.AnyIntIn("parallelism", 1, 2)))
}

func zzE2ERows(n int) (keys, vals []int64) {
	keys, vals = make([]int64, n), make([]int64, n)
	for i := range keys {
		keys[i], vals[i] = zz.AnyInt64("key"), zz.AnyInt64("val")
	}
	return
}

func zzE2EScan(res *Result) (gk, gv []int64, err error) {
	sc := res.Scanner()
	var k, v int64
	for sc.Scan(context.Background(), &k, &v) {
		gk, gv = append(gk, k), append(gv, v)
	}
	return gk, gv, sc.Err()
}

// Const -> Map -> Filter, pipelined into one task per shard: the result is the
// reference evaluation, in order (Const fixes the order; shards are
// concatenated in shard order).
func zzH_C01_e2e_mapFilter() {
	old := *defaultChunksize
	*defaultChunksize = zz.AnyIntIn("chunk", 1, 2)
	defer func() { *defaultChunksize = old }()
	sess := zzE2ESession()
	n := zz.AnyIntIn("rows", 0, 3)
	nshard := zz.AnyIntIn("nshard", 1, 2)
	keys, vals := zzE2ERows(n)
	res, err := sess.Run(context.Background(), zzE2EMapFilter, nshard, keys, vals)
	zz.Assert(err == nil, "a failure-free program runs to success")
	if err != nil {
		return
	}
	gk, gv, err := zzE2EScan(res)
	zz.Assert(err == nil, "scanning a successful result does not fail")
	var wk, wv []int64
	for i := range keys {
		if zzUFKeep(zzUFMap(keys[i], vals[i])) {
			k, v := zzUFMap(keys[i], vals[i])
			wk, wv = append(wk, k), append(wv, v)
		}
	}
	zz.Reach("scanned")
	zz.Assert(len(gk) == len(wk), "the result has exactly the rows the operators prescribe")
	if len(gk) != len(wk) {
		return
	}
	for i := range wk {
		zz.Assert(zz.And(gk[i] == wk[i], gv[i] == wv[i]), "the result has exactly the rows the operators prescribe, in order")
	}
}

// zzE2EKeyed asserts that (gk, gv) is exactly one row per distinct key of
// (keys, vals) carrying the sum of that key's values.
func zzE2EKeyed(gk, gv, keys, vals []int64, what string) {
	distinct := 0
	for i := range keys {
		first := true
		for j := 0; j < i; j++ {
			first = zz.And(first, keys[j] != keys[i])
		}
		distinct += zz.IteInt(first, 1, 0)
	}
	zz.Assert(len(gk) == distinct, what+": one row per distinct key")
	for a := range gk {
		for b := 0; b < a; b++ {
			zz.Assert(gk[a] != gk[b], what+": every distinct key is emitted exactly once in the whole result")
		}
		found := false
		var sum int64
		for i := range keys {
			found = zz.Or(found, keys[i] == gk[a])
			sum += zz.IteInt64(keys[i] == gk[a], vals[i], 0)
		}
		zz.Assert(found, what+": no key is invented")
		zz.Assert(gv[a] == sum, what+": the value is the fold of all values of the key")
	}
}

// Const -> Reshard -> Reduce: a keyed shuffle with map-side combining, sorting
// and a reducing merge on the consumer side.
func zzH_C01_e2e_reduce()      { zzE2EReduceHarness(2) }
func zzH_C01_e2e_reduce_deep() { zzE2EReduceHarness(3) }

func zzE2EReduceHarness(maxRows int) {
	old := *defaultChunksize
	*defaultChunksize = zz.AnyIntIn("chunk", 1, 2)
	defer func() { *defaultChunksize = old }()
	sess := zzE2ESession()
	n := zz.AnyIntIn("rows", 0, maxRows)
	nshard := zz.AnyIntIn("nshard", 1, 2)
	nred := zz.AnyIntIn("nred", 1, 2)
	keys, vals := zzE2ERows(n)
	res, err := sess.Run(context.Background(), zzE2EReduce, nshard, nred, keys, vals)
	zz.Assert(err == nil, "a failure-free program runs to success")
	if err != nil {
		return
	}
	gk, gv, err := zzE2EScan(res)
	zz.Assert(err == nil, "scanning a successful result does not fail")
	zz.Reach("scanned")
	zzE2EKeyed(gk, gv, keys, vals, "Reduce")
}

// In-memory model of the spiller for whole-program harnesses (any row type):
// a spilled run is a private copy of the frame; Cleanup forgets the runs.
var zzE2ESpills = map[sliceio.Spiller][]frame.Frame{}
var zzE2ESpillers int

func zzStubE2ENewSpiller(name string) (sliceio.Spiller, error) {
	zzE2ESpillers++
	return sliceio.Spiller(fmt.Sprintf("zz-%s-%d", name, zzE2ESpillers)), nil
}

func zzStubE2ESpill(dir sliceio.Spiller, f frame.Frame) (int, error) {
	g := frame.Make(f, f.Len(), f.Len())
	frame.Copy(g, f)
	zzE2ESpills[dir] = append(zzE2ESpills[dir], g)
	return f.Len() * 16, nil
}

func zzStubE2EClosingReaders(dir sliceio.Spiller) ([]sliceio.Reader, error) {
	var rs []sliceio.Reader
	for _, g := range zzE2ESpills[dir] {
		rs = append(rs, sliceio.FrameReader(g))
	}
	return rs, nil
}

func zzStubE2ECleanup(dir sliceio.Spiller) error { delete(zzE2ESpills, dir); return nil }

// zzCacheWrap gives a real slice a model shard cache (the real Cache operator
// is backed by files; the compiler only sees the slicecache.Cacheable
// interface).
type zzCacheWrap struct {
	bigslice.Slice
	cache *zzShardCache
}

func (c *zzCacheWrap) Cache() slicecache.ShardCache { return c.cache }

var zzE2ECache *zzShardCache

var zzE2ECached = bigslice.Func(func(nshard int, keys, vals []int64) bigslice.Slice {
	s := bigslice.Const(nshard, keys, vals)
	s = bigslice.Reshuffle(s)
	s = bigslice.Map(s, zzUFMap)
	s = &zzCacheWrap{s, zzE2ECache}
	return bigslice.Map(s, zzUFMap)
})

// zzH_C08_workerCompile: the invocation a worker receives is the one stored in
// the driver's tasks (bigmachineExecutor.Run transports task.Invocation). The
// driver runs the program through the REAL Session.Run; then the state of the
// cache changes arbitrarily (shards get written by this very run, or files
// disappear) and the invocation held by the tasks is compiled again, as
// (*worker).Compile does. Both compilations must agree on names, shape and
// dependency wiring, and on which shards are read from the cache.
func zzH_C08_workerCompile() {
	sess := Start(Local)
	nshard := zz.AnyIntIn("nshard", 1, 2)
	zzE2ECache = &zzShardCache{cached: make([]bool, nshard)}
	for i := range zzE2ECache.cached {
		zzE2ECache.cached[i] = zz.AnyBool("cachedAtDriverCompile")
	}
	keys, vals := zzE2ERows(nshard)
	res, err := sess.Run(context.Background(), zzE2ECached, nshard, keys, vals)
	zz.Assert(err == nil, "a failure-free program runs to success")
	if err != nil {
		return
	}
	changed := false
	for i := range zzE2ECache.cached {
		now := zz.AnyBool("cachedAtWorkerCompile")
		changed = changed || now != zzE2ECache.cached[i]
		zzE2ECache.cached[i] = now
	}
	if changed {
		zz.Reach("cache state changed between the driver's and the worker's compilation")
	}
	inv := res.tasks[0].Invocation // what bigmachineExecutor.Run hands to addInvocation
	wtasks, werr := compile(inv, inv.Invoke(), false)
	zz.Assert(werr == nil, "worker-side compilation succeeds")
	if werr != nil {
		return
	}
	zzSameGraph(res.tasks, wtasks)
	for i, t := range wtasks {
		zz.Assert((t.Deps == nil) == (res.tasks[i].Deps == nil), "a worker replays the driver's cache decisions")
	}
}
