//go:build verif

package exec

import (
	"context"
	"fmt"
	"strings"

	"github.com/grailbio/bigslice"
	"github.com/grailbio/bigslice/frame"
	"github.com/grailbio/bigslice/internal/slicecache"
	zz "github.com/grailbio/bigslice/internal/zzverif"
	"github.com/grailbio/bigslice/sliceio"
)

// End-to-end harnesses: a program built from the REAL public operators is
// invoked through the REAL Session.Run (Func invocation, compile, Eval with
// its goroutines, the in-process executor with its buffers, partitioning and
// combining) and its result is read through the REAL Result.Scanner. Row
// cells are solver variables; shard counts, the session's parallelism and the
// internal vector size are small solver-chosen integers.

func zzUFMap(k, v int64) (int64, int64) { return k, zz.UFInt64("e2e.F", k, v) }
func zzUFKeep(k, v int64) bool          { return zz.UFBool("e2e.P", k, v) }

var zzE2EMapFilter = bigslice.Func(func(nshard int, keys, vals []int64) bigslice.Slice {
	s := bigslice.Const(nshard, keys, vals)
	s = bigslice.Map(s, zzUFMap)
	s = bigslice.Filter(s, zzUFKeep)
	return s
})

var zzE2EReduce = bigslice.Func(func(nshard, nred int, keys, vals []int64) bigslice.Slice {
	s := bigslice.Const(nshard, keys, vals)
	s = bigslice.Reshard(s, nred)
	return bigslice.Reduce(s, zzAdd64)
})

func zzE2ESession() *Session {
	return Start(Local, Parallelism(zz.AnyIntIn("parallelism", 1, 2)))
}

func zzE2ERows(n int) (keys, vals []int64) {
	keys, vals = make([]int64, n), make([]int64, n)
	for i := range keys {
		keys[i], vals[i] = zz.AnyInt64("key"), zz.AnyInt64("val")
	}
	return
}

func zzE2EScan(res *Result) (gk, gv []int64, err error) {
	sc := res.Scanner()
	var k, v int64
	for sc.Scan(context.Background(), &k, &v) {
		gk, gv = append(gk, k), append(gv, v)
	}
	return gk, gv, sc.Err()
}

// Const -> Map -> Filter, pipelined into one task per shard: the result is the
// reference evaluation, in order (Const fixes the order; shards are
// concatenated in shard order).
func zzH_C01_e2e_mapFilter() {
	old := *defaultChunksize
	*defaultChunksize = zz.AnyIntIn("chunk", 1, 2)
	defer func() { *defaultChunksize = old }()
	sess := zzE2ESession()
	n := zz.AnyIntIn("rows", 0, 3)
	nshard := zz.AnyIntIn("nshard", 1, 2)
	keys, vals := zzE2ERows(n)
	res, err := sess.Run(context.Background(), zzE2EMapFilter, nshard, keys, vals)
	zz.Assert(err == nil, "a failure-free program runs to success")
	if err != nil {
		return
	}
	gk, gv, err := zzE2EScan(res)
	zz.Assert(err == nil, "scanning a successful result does not fail")
	var wk, wv []int64
	for i := range keys {
		if zzUFKeep(zzUFMap(keys[i], vals[i])) {
			k, v := zzUFMap(keys[i], vals[i])
			wk, wv = append(wk, k), append(wv, v)
		}
	}
	zz.Reach("scanned")
	zz.Assert(len(gk) == len(wk), "the result has exactly the rows the operators prescribe")
	if len(gk) != len(wk) {
		return
	}
	for i := range wk {
		zz.Assert(zz.And(gk[i] == wk[i], gv[i] == wv[i]), "the result has exactly the rows the operators prescribe, in order")
	}
}

// zzE2EKeyed asserts that (gk, gv) is exactly one row per distinct key of
// (keys, vals) carrying the sum of that key's values.
func zzE2EKeyed(gk, gv, keys, vals []int64, what string) {
	distinct := 0
	for i := range keys {
		first := true
		for j := 0; j < i; j++ {
			first = zz.And(first, keys[j] != keys[i])
		}
		distinct += zz.IteInt(first, 1, 0)
	}
	zz.Assert(len(gk) == distinct, what+": one row per distinct key")
	for a := range gk {
		for b := 0; b < a; b++ {
			zz.Assert(gk[a] != gk[b], what+": every distinct key is emitted exactly once in the whole result")
		}
		found := false
		var sum int64
		for i := range keys {
			found = zz.Or(found, keys[i] == gk[a])
			sum += zz.IteInt64(keys[i] == gk[a], vals[i], 0)
		}
		zz.Assert(found, what+": no key is invented")
		zz.Assert(gv[a] == sum, what+": the value is the fold of all values of the key")
	}
}

// Const -> Reshard -> Reduce: a keyed shuffle with map-side combining, sorting
// and a reducing merge on the consumer side.
func zzH_C01_e2e_reduce()       { zzE2EReduceHarness(2, false) }
func zzH_C01_e2e_reduce_quick() { zzE2EReduceHarness(2, true) }

func zzE2EReduceHarness(maxRows int, fixed bool) {
	old := *defaultChunksize
	defer func() { *defaultChunksize = old }()
	var sess *Session
	if fixed {
		*defaultChunksize = 2
		sess = Start(Local, Parallelism(1))
	} else {
		*defaultChunksize = zz.AnyIntIn("chunk", 1, 2)
		sess = zzE2ESession()
	}
	n := zz.AnyIntIn("rows", 0, maxRows)
	nshard := zz.AnyIntIn("nshard", 1, 2)
	nred := zz.AnyIntIn("nred", 1, 2)
	keys, vals := zzE2ERows(n)
	res, err := sess.Run(context.Background(), zzE2EReduce, nshard, nred, keys, vals)
	zz.Assert(err == nil, "a failure-free program runs to success")
	if err != nil {
		return
	}
	gk, gv, err := zzE2EScan(res)
	zz.Assert(err == nil, "scanning a successful result does not fail")
	zz.Reach("scanned")
	zzE2EKeyed(gk, gv, keys, vals, "Reduce")
}

// In-memory model of the spiller for whole-program harnesses (any row type):
// a spilled run is a private copy of the frame; Cleanup forgets the runs.
var zzE2ESpills = map[sliceio.Spiller][]frame.Frame{}
var zzE2ESpillers int

func zzStubE2ENewSpiller(name string) (sliceio.Spiller, error) {
	zzE2ESpillers++
	return sliceio.Spiller(fmt.Sprintf("zz-%s-%d", name, zzE2ESpillers)), nil
}

func zzStubE2ESpill(dir sliceio.Spiller, f frame.Frame) (int, error) {
	g := frame.Make(f, f.Len(), f.Len())
	frame.Copy(g, f)
	zzE2ESpills[dir] = append(zzE2ESpills[dir], g)
	return f.Len() * 16, nil
}

func zzStubE2EClosingReaders(dir sliceio.Spiller) ([]sliceio.Reader, error) {
	var rs []sliceio.Reader
	for _, g := range zzE2ESpills[dir] {
		rs = append(rs, sliceio.FrameReader(g))
	}
	return rs, nil
}

func zzStubE2ECleanup(dir sliceio.Spiller) error { delete(zzE2ESpills, dir); return nil }

// zzCacheWrap gives a real slice a model shard cache (the real Cache operator
// is backed by files; the compiler only sees the slicecache.Cacheable
// interface).
type zzCacheWrap struct {
	bigslice.Slice
	cache *zzShardCache
}

func (c *zzCacheWrap) Cache() slicecache.ShardCache { return c.cache }

var zzE2ECache *zzShardCache

var zzE2ECached = bigslice.Func(func(nshard int, keys, vals []int64) bigslice.Slice {
	s := bigslice.Const(nshard, keys, vals)
	s = bigslice.Reshuffle(s)
	s = bigslice.Map(s, zzUFMap)
	s = &zzCacheWrap{s, zzE2ECache}
	return bigslice.Map(s, zzUFMap)
})

// zzH_C08_workerCompile: the invocation a worker receives is the one stored in
// the driver's tasks (bigmachineExecutor.Run transports task.Invocation). The
// driver runs the program through the REAL Session.Run; then the state of the
// cache changes arbitrarily (shards get written by this very run, or files
// disappear) and the invocation held by the tasks is compiled again, as
// (*worker).Compile does. Both compilations must agree on names, shape and
// dependency wiring, and on which shards are read from the cache.
func zzH_C08_workerCompile() {
	sess := Start(Local)
	nshard := zz.AnyIntIn("nshard", 1, 2)
	zzE2ECache = &zzShardCache{cached: make([]bool, nshard)}
	for i := range zzE2ECache.cached {
		zzE2ECache.cached[i] = zz.AnyBool("cachedAtDriverCompile")
	}
	keys, vals := zzE2ERows(nshard)
	res, err := sess.Run(context.Background(), zzE2ECached, nshard, keys, vals)
	zz.Assert(err == nil, "a failure-free program runs to success")
	if err != nil {
		return
	}
	changed := false
	for i := range zzE2ECache.cached {
		now := zz.AnyBool("cachedAtWorkerCompile")
		changed = changed || now != zzE2ECache.cached[i]
		zzE2ECache.cached[i] = now
	}
	if changed {
		zz.Reach("cache state changed between the driver's and the worker's compilation")
	}
	inv := res.tasks[0].Invocation // what bigmachineExecutor.Run hands to addInvocation
	wtasks, werr := compile(inv, inv.Invoke(), false)
	zz.Assert(werr == nil, "worker-side compilation succeeds")
	if werr != nil {
		return
	}
	zzSameGraph(res.tasks, wtasks)
	for i, t := range wtasks {
		zz.Assert((t.Deps == nil) == (res.tasks[i].Deps == nil), "a worker replays the driver's cache decisions")
	}
}

func zzUFMap2(k, v int64) (int64, int64) { return k, zz.UFInt64("e2e.G", k, v) }

var zzE2EUse = bigslice.Func(func(s bigslice.Slice) bigslice.Slice {
	return bigslice.Map(s, zzUFMap2)
})

var zzE2EUseShuffled = bigslice.Func(func(s bigslice.Slice, nshard int) bigslice.Slice {
	return bigslice.Map(bigslice.Reshard(s, nshard), zzUFMap2)
})

// zzE2ESameMultiset asserts that (gk, gv) is a permutation of (wk, wv) for up
// to 3 rows (counting occurrences symbolically).
func zzE2ESameMultiset(gk, gv, wk, wv []int64, what string) {
	zz.Assert(len(gk) == len(wk), what+": the same number of rows")
	if len(gk) != len(wk) {
		return
	}
	for i := range wk {
		cg, cw := 0, 0
		for j := range wk {
			cg += zz.IteInt(zz.And(gk[j] == wk[i], gv[j] == wv[i]), 1, 0)
			cw += zz.IteInt(zz.And(wk[j] == wk[i], wv[j] == wv[i]), 1, 0)
		}
		zz.Assert(cg == cw, what+": every row occurs as often as the reference evaluation prescribes")
	}
}

// zzH_C12_e2e_reuse: a Result is scanned, passed to a later Func (pipelined or
// through a shuffle), possibly discarded in between, and scanned again: every
// successful use observes the rows of the first evaluation.
func zzH_C12_e2e_reuse() {
	old := *defaultChunksize
	*defaultChunksize = 2
	defer func() { *defaultChunksize = old }()
	ctx := context.Background()
	sess := zzE2ESession()
	nshard := zz.AnyIntIn("nshard", 1, 2)
	keys, vals := zzE2ERows(zz.AnyIntIn("rows", 0, 2))
	res, err := sess.Run(ctx, zzE2EMapFilter, nshard, keys, vals)
	zz.Assert(err == nil, "a failure-free program runs to success")
	if err != nil {
		return
	}
	var wk, wv []int64
	for i := range keys {
		if zzUFKeep(zzUFMap(keys[i], vals[i])) {
			k, v := zzUFMap(keys[i], vals[i])
			wk, wv = append(wk, k), append(wv, v)
		}
	}
	gk, gv, err := zzE2EScan(res)
	zz.Assert(err == nil, "scanning a successful result does not fail")
	zzE2ESameMultiset(gk, gv, wk, wv, "first scan")
	discarded := zz.AnyBool("discardBeforeReuse")
	if discarded {
		res.Discard(ctx)
		zz.Reach("result discarded before it is reused")
		for _, t := range res.tasks {
			zz.Assert(t.State() != TaskRunning, "Discard does not leave a task RUNNING")
		}
	}
	var res2 *Result
	if zz.AnyBool("reuseThroughShuffle") {
		zz.Reach("reused through a shuffle")
		res2, err = sess.Run(ctx, zzE2EUseShuffled, res, zz.AnyIntIn("nshard2", 1, 2))
	} else {
		res2, err = sess.Run(ctx, zzE2EUse, res)
	}
	zz.Assert(err == nil, "a later Func using the result runs to success (recomputing what was discarded)")
	if err != nil {
		return
	}
	var w2k, w2v []int64
	for i := range wk {
		k, v := zzUFMap2(wk[i], wv[i])
		w2k, w2v = append(w2k, k), append(w2v, v)
	}
	g2k, g2v, err := zzE2EScan(res2)
	zz.Assert(err == nil, "scanning the later result does not fail")
	zzE2ESameMultiset(g2k, g2v, w2k, w2v, "later Func over the result")
	// rescanning the first result: its rows (recomputed if they were discarded) or an error, never other rows
	gk, gv, err = zzE2EScan(res)
	if err == nil {
		zz.Reach("rescanned")
		zzE2ESameMultiset(gk, gv, wk, wv, "rescan")
	}
}

func zzUFMaybePanic(k, v int64) (int64, int64) {
	if zz.UFBool("e2e.panics", k, v) {
		panic(zzUserMsg)
	}
	return k, v
}

var zzE2EPanicky = bigslice.Func(func(nshard int, keys, vals []int64) bigslice.Slice {
	return bigslice.Map(bigslice.Const(nshard, keys, vals), zzUFMaybePanic)
})

// zzH_C06_e2e_panic: a user function that panics at some row makes the REAL
// Session.Run return an error carrying the panic value -- no hang, no crash, no
// partial result -- and the session stays usable: a later healthy run succeeds
// with the right rows.
func zzH_C06_e2e_panic() {
	old := *defaultChunksize
	*defaultChunksize = 2
	defer func() { *defaultChunksize = old }()
	ctx := context.Background()
	sess := zzE2ESession()
	nshard := zz.AnyIntIn("nshard", 1, 2)
	keys, vals := zzE2ERows(zz.AnyIntIn("rows", 0, 2))
	res, err := sess.Run(ctx, zzE2EPanicky, nshard, keys, vals)
	panics := false
	for i := range keys {
		panics = zz.Or(panics, zz.UFBool("e2e.panics", keys[i], vals[i]))
	}
	if panics {
		zz.Reach("a user function panicked")
		zz.Assert(err != nil, "a panic in a user function makes Run return an error")
		zz.Assert(err != nil && strings.Contains(err.Error(), zzUserMsg), "the error carries the panic value")
	} else {
		zz.Assert(err == nil, "a failure-free program runs to success")
		if err == nil {
			gk, gv, serr := zzE2EScan(res)
			zz.Assert(serr == nil, "scanning a successful result does not fail")
			zzE2ESameMultiset(gk, gv, keys, vals, "healthy run")
		}
	}
	// the session remains usable
	res2, err2 := sess.Run(ctx, zzE2EMapFilter, nshard, keys, vals)
	zz.Assert(err2 == nil, "the session remains usable for later runs")
	if err2 != nil {
		return
	}
	var wk, wv []int64
	for i := range keys {
		if zzUFKeep(zzUFMap(keys[i], vals[i])) {
			k, v := zzUFMap(keys[i], vals[i])
			wk, wv = append(wk, k), append(wv, v)
		}
	}
	gk, gv, serr := zzE2EScan(res2)
	zz.Assert(serr == nil, "scanning a successful result does not fail")
	zzE2ESameMultiset(gk, gv, wk, wv, "run after a failed run")
}

func zzUFExpand(k, v int64) (ks, vs []int64) {
	n := int(zz.UFInt64("e2e.Glen", k, v))
	zz.Assume(zz.And(n >= 0, n <= 2))
	for i := 0; i < n; i++ {
		ks, vs = append(ks, k), append(vs, zz.UFInt64("e2e.Gval", k, v, int64(i)))
	}
	return
}

var zzE2EFlatmapHead = bigslice.Func(func(nshard, head int, keys, vals []int64) bigslice.Slice {
	s := bigslice.Const(nshard, keys, vals)
	s = bigslice.Flatmap(s, zzUFExpand)
	return bigslice.Head(s, head)
})

// zzH_C01_e2e_flatmapHead: Const -> Flatmap -> Head(n): per shard, the first n
// rows of the concatenated expansions, shards in order.
func zzH_C01_e2e_flatmapHead() {
	old := *defaultChunksize
	*defaultChunksize = zz.AnyIntIn("chunk", 1, 2)
	defer func() { *defaultChunksize = old }()
	sess := Start(Local, Parallelism(1))
	n := zz.AnyIntIn("rows", 0, 2)
	nshard := zz.AnyIntIn("nshard", 1, 2)
	head := zz.AnyIntIn("head", 0, 3)
	keys, vals := zzE2ERows(n)
	res, err := sess.Run(context.Background(), zzE2EFlatmapHead, nshard, head, keys, vals)
	zz.Assert(err == nil, "a failure-free program runs to success")
	if err != nil {
		return
	}
	gk, gv, err := zzE2EScan(res)
	zz.Assert(err == nil, "scanning a successful result does not fail")
	zz.Reach("scanned")
	// reference: Const puts rows [lo,hi) of the input in each shard, in order
	var wk, wv []int64
	for shard := 0; shard < nshard; shard++ {
		// Const: shard s holds n/nshard consecutive rows, the first n%nshard shards one more
		lo := (n/nshard)*shard + shard
		if shard > n%nshard {
			lo = (n/nshard)*shard + n%nshard
		}
		hi := lo + n/nshard
		if shard < n%nshard {
			hi++
		}
		taken := 0
		for i := lo; i < hi; i++ {
			ks, vs := zzUFExpand(keys[i], vals[i])
			for j := range ks {
				if taken < head {
					wk, wv = append(wk, ks[j]), append(wv, vs[j])
					taken++
				}
			}
		}
		if taken == head && head > 0 {
			zz.Reach("Head cut a shard")
		}
	}
	zz.Assert(len(gk) == len(wk), "the result has exactly the rows the operators prescribe")
	if len(gk) != len(wk) {
		return
	}
	for i := range wk {
		zz.Assert(zz.And(gk[i] == wk[i], gv[i] == wv[i]), "the result has exactly the rows the operators prescribe, in order")
	}
}

var zzE2ECogroup = bigslice.Func(func(nshard int, ka, va, kb, vb []int64) bigslice.Slice {
	return bigslice.Cogroup(bigslice.Const(nshard, ka, va), bigslice.Const(nshard, kb, vb))
})

// zzE2EGroupIs asserts that g is, as a multiset (up to 2 values), the values
// of the rows of (keys, vals) whose key is k.
func zzE2EGroupIs(g []int64, k int64, keys, vals []int64, what string) {
	cnt := 0
	for j := range keys {
		cnt += zz.IteInt(keys[j] == k, 1, 0)
	}
	zz.Assert(len(g) == cnt, what+": the group has one value per row of that key")
	if len(g) != zz.Concrete(cnt) {
		return
	}
	var want []int64
	for j := range keys {
		if keys[j] == k {
			want = append(want, vals[j])
		}
	}
	switch len(want) {
	case 1:
		zz.Assert(g[0] == want[0], what+": the group holds the key's values")
	case 2:
		zz.Assert(zz.Or(zz.And(g[0] == want[0], g[1] == want[1]), zz.And(g[0] == want[1], g[1] == want[0])), what+": the group holds the key's values")
	}
}

// zzH_C01_e2e_cogroup: Cogroup of two Const inputs through the whole run: two
// shuffles into the same shards, sorting, merging: every distinct key of
// either input exactly once in the whole result, with the group of each
// input's values.
func zzH_C01_e2e_cogroup() {
	old := *defaultChunksize
	*defaultChunksize = 2
	defer func() { *defaultChunksize = old }()
	sess := Start(Local, Parallelism(1))
	nshard := zz.AnyIntIn("nshard", 1, 2)
	ka, va := zzE2ERows(zz.AnyIntIn("rowsA", 0, 2))
	kb, vb := zzE2ERows(zz.AnyIntIn("rowsB", 0, 1))
	res, err := sess.Run(context.Background(), zzE2ECogroup, nshard, ka, va, kb, vb)
	zz.Assert(err == nil, "a failure-free program runs to success")
	if err != nil {
		return
	}
	sc := res.Scanner()
	var keys []int64
	var ga, gb [][]int64
	var k int64
	var a, b []int64
	for sc.Scan(context.Background(), &k, &a, &b) {
		keys = append(keys, k)
		ga, gb = append(ga, append([]int64(nil), a...)), append(gb, append([]int64(nil), b...))
	}
	zz.Assert(sc.Err() == nil, "scanning a successful result does not fail")
	zz.Reach("scanned")
	all := append(append([]int64(nil), ka...), kb...)
	distinct := 0
	for i := range all {
		first := true
		for j := 0; j < i; j++ {
			first = zz.And(first, all[j] != all[i])
		}
		distinct += zz.IteInt(first, 1, 0)
	}
	zz.Assert(len(keys) == distinct, "Cogroup: one row per distinct key of either input")
	for i := range keys {
		for j := 0; j < i; j++ {
			zz.Assert(keys[i] != keys[j], "Cogroup: every distinct key is emitted exactly once in the whole result")
		}
		zzE2EGroupIs(ga[i], keys[i], ka, va, "Cogroup (first input)")
		zzE2EGroupIs(gb[i], keys[i], kb, vb, "Cogroup (second input)")
		if len(ga[i]) > 0 && len(gb[i]) > 0 {
			zz.Reach("key present in both inputs")
		}
	}
}

var zzE2ECalls int

func zzCountedMap(k, v int64) (int64, int64) { zzE2ECalls++; return k, zz.UFInt64("e2e.F", k, v) }

var zzE2ECounted = bigslice.Func(func(nshard int, keys, vals []int64) bigslice.Slice {
	return bigslice.Map(bigslice.Const(nshard, keys, vals), zzCountedMap)
})

// zzH_C19_e2e_sharedResult: two concurrent Session.Run calls whose Funcs both
// consume the same Result (whose outputs may have been discarded, so that the
// shared tasks must be recomputed while both runs are in flight): each run
// returns the rows it would return alone, the shared tasks are executed by one
// of the runs only, and no run blocks. Whole runs on the real Session and
// in-process executor under the cooperative scheduler.
func zzH_C19_e2e_sharedResult() {
	old := *defaultChunksize
	*defaultChunksize = 2
	defer func() { *defaultChunksize = old }()
	ctx := context.Background()
	sess := zzE2ESession()
	nshard := zz.AnyIntIn("nshard", 1, 2)
	keys, vals := zzE2ERows(zz.AnyIntIn("rows", 0, 2))
	res, err := sess.Run(ctx, zzE2ECounted, nshard, keys, vals)
	zz.Assert(err == nil, "a failure-free program runs to success")
	if err != nil {
		return
	}
	zz.Assert(zzE2ECalls == len(keys), "the user function sees every row exactly once")
	discarded := zz.AnyBool("discardBeforeReuse")
	if discarded {
		res.Discard(ctx)
		zz.Reach("shared result discarded: both runs need it recomputed")
	}
	var rs [2]*Result
	var errs [2]error
	done := make(chan int, 2)
	for r := 0; r < 2; r++ {
		r := r
		go func() {
			rs[r], errs[r] = sess.Run(ctx, zzE2EUse, res)
			done <- r
		}()
	}
	<-done
	<-done
	zz.Reach("both runs returned")
	want := len(keys)
	if discarded {
		want *= 2
	}
	zz.Assert(zzE2ECalls == want, "shared tasks are executed by one of the runs only (and only if their output was gone)")
	var wk, wv []int64
	for i := range keys {
		k, v := zzUFMap2(keys[i], zz.UFInt64("e2e.F", keys[i], vals[i]))
		wk, wv = append(wk, k), append(wv, v)
	}
	for r := 0; r < 2; r++ {
		zz.Assert(errs[r] == nil, "each concurrent run succeeds")
		if errs[r] != nil {
			continue
		}
		gk, gv, serr := zzE2EScan(rs[r])
		zz.Assert(serr == nil, "scanning a successful result does not fail")
		zzE2ESameMultiset(gk, gv, wk, wv, "concurrent run")
	}
}

func zzFoldSum(acc, v int64) int64 { return acc + v }

var zzE2EFold = bigslice.Func(func(nshard int, keys, vals []int64) bigslice.Slice {
	return bigslice.Fold(bigslice.Const(nshard, keys, vals), zzFoldSum)
})

// zzH_C01_e2e_fold: Const -> Fold through the whole run (a keyed shuffle
// without a combiner, accumulation in the consumer): one row per distinct key
// with the sum of its values.
func zzH_C01_e2e_fold() {
	old := *defaultChunksize
	*defaultChunksize = 2
	defer func() { *defaultChunksize = old }()
	sess := Start(Local, Parallelism(1))
	nshard := zz.AnyIntIn("nshard", 1, 2)
	keys, vals := zzE2ERows(zz.AnyIntIn("rows", 0, 2))
	res, err := sess.Run(context.Background(), zzE2EFold, nshard, keys, vals)
	zz.Assert(err == nil, "a failure-free program runs to success")
	if err != nil {
		return
	}
	gk, gv, err := zzE2EScan(res)
	zz.Assert(err == nil, "scanning a successful result does not fail")
	zz.Reach("scanned")
	zzE2EKeyed(gk, gv, keys, vals, "Fold")
}
