//go:build verif

package exec

import (
	"context"

	"github.com/grailbio/bigslice/frame"
	zz "github.com/grailbio/bigslice/internal/zzverif"
	"github.com/grailbio/bigslice/metrics"
	"github.com/grailbio/bigslice/sliceio"
	"github.com/grailbio/bigslice/stats"
)

// zzH_C20_resultScope: the counters reported for a result are the sum of the
// task scopes over the reachable task graph, each task counted once, for
// graph shapes with shared dependencies and shuffle groups.
func zzH_C20_resultScope() { zzResultScope(0, 2) }
func zzH_C20_resultScope_shuffle() { zzResultScope(3, 4) }

func zzResultScope(lo, hi int) {
	c := metrics.NewCounter()
	for shape := lo; shape <= hi; shape++ {
		g := zzShape(shape)
		var sum int64
		for _, t := range g.tasks {
			v := zz.AnyInt64("taskCount")
			if zz.AnyBool("taskHasCount") {
				c.Incr(&t.Scope, v)
				sum += v
			}
		}
		r := &Result{tasks: g.roots}
		if shape == 3 {
			zz.Reach("shuffle group")
		}
		got := c.Value(r.Scope())
		zz.Assert(got == sum, "result counters = sum of task counters, each task once")
		// computed once: a later task increment is not re-merged, and a second
		// call returns the same scope and value.
		c.Incr(&g.tasks[0].Scope, 1)
		zz.Assert(c.Value(r.Scope()) == sum, "result scope is computed once")
	}
}

// zzCountingReader is user code that increments a counter through the task's
// context scope for every Read call, then serves the model stream.
type zzCountingReader struct {
	sliceio.Reader
	c     metrics.Counter
	incrs []int64
	calls int
	total int64
}

func (r *zzCountingReader) Read(ctx context.Context, f frame.Frame) (int, error) {
	if r.calls < len(r.incrs) {
		r.c.Incr(metrics.ContextScope(ctx), r.incrs[r.calls])
		r.total += r.incrs[r.calls]
	}
	r.calls++
	return r.Reader.Read(ctx, f)
}

// zzH_C20_workerReply: counters incremented by user code while a worker runs
// a task are scoped to that task and reach the driver unchanged: the reply of
// Worker.Run carries exactly the task's counters, also when the same request
// arrives again at a worker that has already run the task (a retried RPC whose
// first reply was lost, a resubmission to a machine that still has the task),
// and the driver's adoption of the reply (task.Scope.Reset(&reply.Scope))
// leaves the task with these values.
func zzH_C20_workerReply() {
	old := *defaultChunksize
	*defaultChunksize = 2
	defer func() { *defaultChunksize = old }()
	c := metrics.NewCounter()
	n := zz.AnyIntIn("rows", 0, 2)
	m := sliceio.ZZNewModel("out", n)
	m.Deterministic = true
	cr := &zzCountingReader{Reader: m, c: c, incrs: []int64{zz.AnyInt64("incr"), zz.AnyInt64("incr")}}
	name := TaskName{InvIndex: 1, Op: "t", Shard: 0, NumShard: 1}
	task := &Task{Name: name, Type: zzTyp2, NumPartition: 1}
	task.Do = func([]sliceio.Reader) sliceio.Reader { return cr }
	w := &worker{
		store:     newMemoryStore(),
		tasks:     map[uint64]map[TaskName]*Task{1: {name: task}},
		taskStats: map[uint64]map[TaskName]*stats.Map{1: {name: stats.NewMap()}},
		stats:     stats.NewMap(),
	}
	zzEncs, zzEncOrder, zzEncFailAt, zzEncWrites = map[*sliceio.Encoder]*zzEnc{}, nil, -1, 0
	ctx := context.Background()
	var reply taskRunReply
	err := w.Run(ctx, taskRunRequest{Name: name, Invocation: 1}, &reply)
	zz.Assert(err == nil, "a healthy run succeeds")
	if err != nil {
		return
	}
	if cr.calls >= 2 {
		zz.Reach("two increments")
	}
	zz.Assert(c.Value(&reply.Scope) == cr.total, "the reply carries the counters incremented while computing the task")
	// the same request again: the worker already has the task's result
	var again taskRunReply
	err = w.Run(ctx, taskRunRequest{Name: name, Invocation: 1}, &again)
	zz.Assert(err == nil, "a repeated request for a completed task succeeds")
	zz.Assert(cr.calls <= 3, "a completed task is not computed again")
	zz.Assert(c.Value(&again.Scope) == cr.total, "the reply to a repeated request carries the task's counters as well")
	// driver side: whichever reply is consumed, the driver's task ends with the values
	var driverTask Task
	if zz.AnyBool("driverConsumesSecondReply") {
		driverTask.Scope.Reset(&again.Scope)
	} else {
		driverTask.Scope.Reset(&reply.Scope)
	}
	zz.Assert(c.Value(&driverTask.Scope) == cr.total, "the driver's task reports the sum of the increments performed while computing it")
}
