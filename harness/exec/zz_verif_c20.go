//go:build verif

package exec

import (
	zz "github.com/grailbio/bigslice/internal/zzverif"
	"github.com/grailbio/bigslice/metrics"
)

// zzH_C20_resultScope: the counters reported for a result are the sum of the
// task scopes over the reachable task graph, each task counted once, for
// graph shapes with shared dependencies and shuffle groups.
func zzH_C20_resultScope() { zzResultScope(0, 2) }
func zzH_C20_resultScope_shuffle() { zzResultScope(3, 4) }

func zzResultScope(lo, hi int) {
	c := metrics.NewCounter()
	for shape := lo; shape <= hi; shape++ {
		g := zzShape(shape)
		var sum int64
		for _, t := range g.tasks {
			v := zz.AnyInt64("taskCount")
			if zz.AnyBool("taskHasCount") {
				c.Incr(&t.Scope, v)
				sum += v
			}
		}
		r := &Result{tasks: g.roots}
		if shape == 3 {
			zz.Reach("shuffle group")
		}
		got := c.Value(r.Scope())
		zz.Assert(got == sum, "result counters = sum of task counters, each task once")
		// computed once: a later task increment is not re-merged, and a second
		// call returns the same scope and value.
		c.Incr(&g.tasks[0].Scope, 1)
		zz.Assert(c.Value(r.Scope()) == sum, "result scope is computed once")
	}
}
