//go:build verif

package exec

import (
	"context"
	"time"

	"github.com/grailbio/base/errors"
	"github.com/grailbio/base/eventlog"
	"github.com/grailbio/base/status"
	zz "github.com/grailbio/bigslice/internal/zzverif"
)

// zzEvExec is the executor seen by the waiter goroutine's body.
type zzEvExec struct{ Executor }

func (zzEvExec) Eventer() eventlog.Eventer { return eventlog.Nop{} }

// zzStubTaskWait models Task.Wait: when it returns, the task has moved to some
// later state (another evaluator, the executor or machine loss may have moved
// it several steps).
func zzStubTaskWait(t *Task, ctx context.Context) error {
	n := zz.AnyInt("nextState")
	zz.Assume(zz.And(n > int(t.state), n <= int(TaskLost)))
	t.state = TaskState(n)
	if t.state == TaskErr {
		t.err = zzErrTask
	}
	return nil
}

// zzH_C03_waiter: the body of Eval's per-task waiter goroutine, run as a unit.
// A task the evaluator runs itself that ends LOST has its consecutive-loss
// count incremented and, at the fifth loss in a row, becomes a fatal
// TooManyTries error; a success resets the count; an evaluator that only awaits
// a task run by another evaluation never touches the count; the task is
// reported back exactly once.
func zzH_C03_waiter() {
	runner := zz.AnyBool("runner")
	lost := zz.AnyInt("consecutiveLostBefore")
	zz.Assume(zz.And(lost >= 0, lost <= 6))
	task := &Task{Name: TaskName{Op: "t", NumShard: 1}}
	task.consecutiveLost = lost
	if runner {
		task.state = TaskWaiting
	} else {
		s := zz.AnyInt("stateWhenAwaited")
		zz.Assume(zz.And(s >= int(TaskWaiting), s <= int(TaskLost)))
		task.state = TaskState(s)
		if task.state == TaskErr {
			task.err = zzErrTask
		}
	}
	var (
		ctx          = context.Background()
		evalStatus   = newEvalStatus(nil)
		startRunTime time.Time
		executor     Executor = zzEvExec{}
		st           *status.Task
		errc         = make(chan error, 1)
		donec        = make(chan *Task, 8)
	)
	task.Lock()
	zz.CallAnon("Eval$1", []interface{}{&ctx, &evalStatus, &runner, &startRunTime, &executor, &st, &errc, &donec}, task)
	zz.Assert(len(donec) == 1 && len(errc) == 0, "the task is reported back to the evaluator exactly once")
	fin := task.state
	zz.Assert(fin == TaskOk || fin == TaskErr || fin == TaskLost, "the waiter returns only when the task reached a final state")
	if !runner {
		zz.Reach("awaited only")
		zz.Assert(task.consecutiveLost == lost, "an evaluator that only awaits a task never touches its loss count")
		return
	}
	if fin == TaskOk {
		zz.Reach("ran ok")
		zz.Assert(task.consecutiveLost == 0, "a successful run resets the consecutive-loss count")
	}
	if fin == TaskLost {
		zz.Reach("lost, resubmittable")
		zz.Assert(task.consecutiveLost == lost+1, "a lost run increments the consecutive-loss count")
		zz.Assert(task.consecutiveLost < maxConsecutiveLost, "a task stays LOST (to be resubmitted) only below five consecutive losses")
	}
	if fin == TaskErr && task.err != zzErrTask {
		zz.Reach("too many losses")
		zz.Assert(lost+1 >= maxConsecutiveLost, "a task is failed for repeated loss only at the fifth loss in a row")
		zz.Assert(errors.Is(errors.TooManyTries, task.err), "repeated loss is reported as a TooManyTries error")
	}
}
