//go:build verif

package exec

import (
	"context"
	"errors"
	"io"

	zz "github.com/grailbio/bigslice/internal/zzverif"
)

var zzErrTransient = errors.New("zz: transient failure")

// zzStream is the ghost committed byte stream served by the model opener.
type zzStream struct {
	data      []byte
	delivered int // bytes the reader under test has handed to its caller
	opens     int
	fails     int  // transient failures injected so far
	maxFail   int  // bound on transient failures
	canPersist bool // failures may become persistent (every later open fails)
	persistent bool
}

// fail decides whether to inject a failure at this point.
func (s *zzStream) fail(what string) bool {
	if s.persistent {
		return true
	}
	if s.canPersist && zz.AnyBool("persistentFrom_"+what) {
		s.persistent = true
		zz.Reach("persistent failure")
		return true
	}
	if s.fails < s.maxFail && zz.AnyBool(what) {
		s.fails++
		return true
	}
	return false
}

type zzOpener struct{ s *zzStream }

func (o *zzOpener) OpenAt(ctx context.Context, off int64) (io.ReadCloser, error) {
	o.s.opens++
	// the property at the seam: a (re)open resumes exactly after the
	// bytes already delivered — nothing skipped, nothing repeated.
	zz.Assert(off == int64(o.s.delivered), "reopen resumes at the number of bytes delivered so far")
	if o.s.opens > 1 {
		zz.Reach("reopen after failure")
	}
	if o.s.fail("openFails") {
		return nil, zzErrTransient
	}
	return &zzRC{s: o.s, pos: int(off)}, nil
}

type zzRC struct {
	s      *zzStream
	pos    int
	closed bool
}

func (r *zzRC) Close() error { r.closed = true; return nil }

func (r *zzRC) Read(p []byte) (int, error) {
	zz.Assert(!r.closed, "no read from a closed underlying reader")
	rem := len(r.s.data) - r.pos
	max := len(p)
	if rem < max {
		max = rem
	}
	n := zz.AnyIntIn("n", 0, max)
	copy(p[:n], r.s.data[r.pos:r.pos+n])
	r.pos += n
	if r.s.fail("readFails") {
		if n > 0 {
			zz.Reach("failure with n>0")
		}
		return n, zzErrTransient
	}
	if r.pos == len(r.s.data) && zz.AnyBool("eofNow") {
		return n, io.EOF
	}
	return n, nil
}

// zzH_C15_retryReader: for every stream of up to L bytes, every sequence of
// destination sizes and every pattern of open failures, short reads and read
// errors (also errors that come with data), the retry reader delivers exactly
// the committed stream — a prefix at all times, end-of-stream only after all
// of it — or a sticky error once the retry budget is exhausted.
func zzH_C15_retryReader() { zzRetryReaderHarness(2, 3, 2, 2, true) }

func zzH_C15_retryReader_deep() { zzRetryReaderHarness(3, 3, 3, 3, true) }

func zzRetryReaderHarness(maxL, K, maxP, maxFail int, canPersist bool) {
	L := zz.AnyIntIn("L", 0, maxL)
	s := &zzStream{data: make([]byte, L), maxFail: maxFail, canPersist: canPersist}
	for i := range s.data {
		s.data[i] = zz.AnyUint8("byte")
	}
	rr := newRetryReader(context.Background(), &zzOpener{s})
	for k := 0; k < K; k++ {
		lp := zz.AnyIntIn("lenp", 1, maxP)
		p := make([]byte, lp)
		n, err := rr.Read(p)
		zz.Assert(n >= 0 && n <= lp, "0 <= n <= len(p)")
		zz.Assert(s.delivered+n <= L, "never more bytes than the stream holds")
		for i := 0; i < n; i++ {
			zz.Assert(p[i] == s.data[s.delivered+i], "delivered bytes are the committed bytes, in order")
		}
		s.delivered += n
		zz.Assert(rr.bytes == int64(s.delivered), "internal offset equals bytes delivered")
		if err == io.EOF {
			zz.Reach("eof")
			zz.Assert(s.delivered == L, "end-of-stream only after the whole stream")
			n2, err2 := rr.Read(p)
			zz.Assert(n2 == 0 && err2 == io.EOF, "end-of-stream is sticky")
			break
		}
		if err != nil {
			zz.Reach("budget exhausted")
			n2, err2 := rr.Read(p)
			zz.Assert(n2 == 0 && err2 != nil, "error after retry exhaustion is sticky")
			break
		}
	}
	zz.Assert(rr.Close() == nil, "close succeeds")
}

// ---------------------------------------------------------------------
// memoryStore against a reference map

type zzRef struct {
	data    []byte
	records int64
	present bool
}

func zzH_C15_memoryStore() { zzMemoryStoreHarness(3) }
func zzH_C15_memoryStore_deep() { zzMemoryStoreHarness(4) }

func zzMemoryStoreHarness(ops int) {
	ctx := context.Background()
	st := newMemoryStore()
	task := TaskName{Op: "op", Shard: 0, NumShard: 1}
	var ref [2]zzRef
	for k := 0; k < ops; k++ {
		part := zz.AnyIntIn("partition", 0, 1)
		switch zz.AnyIntIn("op", 0, 4) {
		case 0, 1: // create + write (+ commit iff op==0)
			commit := zz.AnyBool("commit")
			w, err := st.Create(ctx, task, part)
			if ref[part].present {
				// documented: Create of a stored partition may fail; if it does
				// not, the commit must.
				if err != nil {
					continue
				}
			} else {
				zz.Assert(err == nil, "create of an absent partition succeeds")
			}
			if err != nil {
				continue
			}
			n := zz.AnyIntIn("wlen", 0, 2)
			buf := make([]byte, n)
			for i := range buf {
				buf[i] = zz.AnyUint8("wbyte")
			}
			wn, werr := w.Write(buf)
			zz.Assert(wn == n && werr == nil, "write accepts all bytes")
			// uncommitted data never visible
			if !ref[part].present {
				_, oerr := st.Open(ctx, task, part, 0)
				zz.Assert(oerr != nil, "uncommitted data are not visible to Open")
				_, serr := st.Stat(ctx, task, part)
				zz.Assert(serr != nil, "uncommitted data are not visible to Stat")
			}
			if !commit {
				w.Discard(ctx)
				continue
			}
			recs := zz.AnyInt64("records")
			cerr := w.Commit(ctx, recs)
			if ref[part].present {
				zz.Assert(cerr != nil, "second commit of a stored partition reports an error")
			} else {
				zz.Assert(cerr == nil, "commit of an absent partition succeeds")
				ref[part] = zzRef{data: append([]byte(nil), buf...), records: recs, present: true}
				zz.Reach("committed")
			}
		case 2: // open at offset
			off := zz.AnyIntIn("offset", 0, 3)
			rc, err := st.Open(ctx, task, part, int64(off))
			if !ref[part].present {
				zz.Assert(err != nil, "open of an absent partition fails")
				continue
			}
			if off > len(ref[part].data) {
				zz.Assert(err != nil, "open beyond the end fails")
				continue
			}
			zz.Assert(err == nil, "open of committed data succeeds")
			if err != nil {
				continue
			}
			got, rerr := io.ReadAll(rc)
			zz.Assert(rerr == nil, "read of committed data succeeds")
			want := ref[part].data[off:]
			zz.Assert(len(got) == len(want), "exactly the committed bytes from the offset")
			if len(got) == len(want) {
				for i := range got {
					zz.Assert(got[i] == want[i], "committed bytes returned unchanged")
				}
			}
			zz.Reach("opened")
		case 3: // stat
			info, err := st.Stat(ctx, task, part)
			if !ref[part].present {
				zz.Assert(err != nil, "stat of an absent partition fails")
				continue
			}
			zz.Assert(err == nil, "stat of committed data succeeds")
			zz.Assert(info.Size == int64(len(ref[part].data)), "stat size = committed size")
			zz.Assert(info.Records == ref[part].records, "stat records = committed count")
		case 4: // discard
			err := st.Discard(ctx, task, part)
			if ref[part].present {
				zz.Assert(err == nil, "discard of stored data succeeds")
				zz.Reach("discarded")
			}
			ref[part] = zzRef{}
			_, oerr := st.Open(ctx, task, part, 0)
			zz.Assert(oerr != nil, "open after discard fails")
			_, serr := st.Stat(ctx, task, part)
			zz.Assert(serr != nil, "stat after discard fails")
		}
	}
}

// ---------------------------------------------------------------------
// fileStore / fileWriter over the file model with a failure variable at
// every file operation.

// zzH_C15_fileStore: create, write, commit, then stat/open at an arbitrary
// offset; at most maxFail injected failures anywhere.
func zzH_C15_fileStore() { zzFileStoreHarness(2, 1) }
func zzH_C15_fileStore_deep() { zzFileStoreHarness(3, 2) }

func zzFileStoreHarness(maxLen, maxFail int) {
	ctx := context.Background()
	fs := zzNewFS(maxFail)
	st := &fileStore{Prefix: "/zz"}
	task := TaskName{Op: "op", Shard: 0, NumShard: 1}
	path := st.path(task, 0)

	// nothing visible before anything is written
	_, err0 := st.Open(ctx, task, 0, 0)
	zz.Assert(err0 != nil, "open of an absent entry fails")

	w, err := st.Create(ctx, task, 0)
	if err != nil {
		zz.Assert(fs.failed("create"), "create fails only if the underlying create failed")
		return
	}
	n := zz.AnyIntIn("len", 0, maxLen)
	buf := make([]byte, n)
	for i := range buf {
		buf[i] = zz.AnyUint8("byte")
	}
	wn, werr := w.Write(buf)
	_, vis := fs.files[path]
	zz.Assert(!vis, "uncommitted data are not visible")
	if werr != nil {
		zz.Assert(wn < n || n == 0, "failed write reports a short count")
		w.Discard(ctx)
		_, vis = fs.files[path]
		zz.Assert(!vis, "discarded writer leaves nothing visible")
		return
	}
	if zz.AnyBool("discardInstead") {
		w.Discard(ctx)
		_, vis = fs.files[path]
		zz.Assert(!vis, "discarded writer leaves nothing visible")
		_, err = st.Open(ctx, task, 0, 0)
		zz.Assert(err != nil, "open after discard fails")
		return
	}
	recs := zz.AnyInt64("records")
	cerr := w.Commit(ctx, recs)
	stored, vis := fs.files[path]
	complete := vis && len(stored) == n+8
	if complete {
		for i := 0; i < n; i++ {
			complete = complete && stored[i] == buf[i]
		}
	}
	if cerr == nil {
		zz.Reach("commit ok")
		zz.Assert(complete, "a commit that reports success has persisted data and trailer")
	} else {
		zz.Reach("commit error")
		zz.Assert(!vis, "a commit that reports an error leaves nothing visible")
		_, oerr := st.Open(ctx, task, 0, 0)
		zz.Assert(oerr != nil, "after a failed commit the entry cannot be opened")
	}
	if !complete {
		zz.Assert(cerr != nil, "a commit that could not persist the data reports an error")
		return
	}
	// committed: stat and open
	info, serr := st.Stat(ctx, task, 0)
	if serr == nil {
		zz.Assert(info.Size == int64(n), "stat size = committed size")
		zz.Assert(info.Records == recs, "stat records = committed count")
	} else {
		zz.Assert(fs.fails > 0, "stat fails only on an injected failure")
	}
	off := zz.AnyIntIn("offset", 0, n)
	fs.failedAt = nil // only failures during Open matter below
	rc, oerr := st.Open(ctx, task, 0, int64(off))
	if oerr != nil {
		zz.Assert(fs.fails > 0, "open of committed data fails only on an injected failure")
		return
	}
	zz.Reach("opened")
	got, rerr := io.ReadAll(rc)
	zz.Assert(rerr == nil, "read of committed data succeeds")
	zz.Assert(!fs.failed("seek"), "a failed seek is reported, not ignored")
	zz.Assert(len(got) == n-off, "exactly the committed bytes from the offset")
	if len(got) == n-off {
		for i := range got {
			zz.Assert(got[i] == buf[off+i], "committed bytes returned unchanged")
		}
	}
	zz.Assert(rc.Close() == nil, "close of the reader succeeds")
	// discard
	derr := st.Discard(ctx, task, 0)
	if derr == nil {
		_, oerr = st.Open(ctx, task, 0, 0)
		zz.Assert(oerr != nil, "open after discard fails")
	}
}
