//go:build verif

package exec

import (
	"context"
	"net/http"
	"runtime"

	"github.com/grailbio/base/eventlog"
	zz "github.com/grailbio/bigslice/internal/zzverif"
	"github.com/grailbio/bigslice/sliceio"
)

// zzAsyncExec is an executor shared by several concurrent evaluations. Each
// Run call is on its own goroutine (Eval starts it with "go"); it passes
// through RUNNING, yields so that every other goroutine can observe the
// intermediate state, and then finishes with a solver-chosen outcome.
type zzAsyncExec struct {
	running map[*Task]bool
	runs    map[*Task]int
	losses  map[*Task]int
	maxLost int
	lost    int
}

func (e *zzAsyncExec) Name() string                        { return "zz" }
func (e *zzAsyncExec) Start(*Session) func()               { return nil }
func (e *zzAsyncExec) Reader(*Task, int) sliceio.ReadCloser { return nil }
func (e *zzAsyncExec) Discard(context.Context, *Task)      {}
func (e *zzAsyncExec) Eventer() eventlog.Eventer           { return eventlog.Nop{} }
func (e *zzAsyncExec) HandleDebug(*http.ServeMux)          {}

func (e *zzAsyncExec) Run(t *Task) {
	zz.Assert(!e.running[t], "a shared task is never executed by two runs at the same time")
	e.running[t] = true
	e.runs[t]++
	for _, d := range t.Deps {
		for i := 0; i < d.NumTask(); i++ {
			zz.Assert(d.Task(i).State() == TaskOk, "a task is handed to the executor only when all its dependencies are OK")
		}
	}
	zz.Assert(t.State() == TaskWaiting, "tasks are handed over in state WAITING")
	runtime.Gosched()
	t.Set(TaskRunning)
	runtime.Gosched()
	out := zz.AnyInt("outcome")
	zz.Assume(zz.And(out >= 0, out <= 2))
	if e.lost >= e.maxLost {
		zz.Assume(out != 2)
	}
	e.running[t] = false
	if out == 0 {
		t.Set(TaskOk)
	} else if out == 1 {
		zz.Reach("task failed fatally")
		t.Error(zzErrTask)
	} else {
		e.lost++
		e.losses[t]++
		zz.Reach("task lost")
		t.Set(TaskLost)
	}
}

// zzClosure lists the tasks reachable from roots.
func zzClosure(roots []*Task) []*Task {
	var out []*Task
	var walk func(t *Task)
	walk = func(t *Task) {
		if zzInSet(out, t) {
			return
		}
		out = append(out, t)
		for _, d := range t.Deps {
			for i := 0; i < d.NumTask(); i++ {
				walk(d.Task(i))
			}
		}
	}
	for _, r := range roots {
		for _, t := range r.Phase() {
			walk(t)
		}
	}
	return out
}

// zzConcurrentEvals runs one Eval per root set concurrently on the same task
// graph and the same executor, as concurrent Session.Run calls that share
// results do. Every evaluation terminates (a lost wake-up shows as a deadlock);
// a task is executed once, plus once per loss, whichever evaluation elects
// itself runner; an evaluation reports success only with all of its roots OK
// and an error only if a task it depends on failed.
func zzConcurrentEvals(shape int, rootSets [][]int, maxLost int) {
	g := zzShape(shape)
	ex := &zzAsyncExec{running: map[*Task]bool{}, runs: map[*Task]int{}, losses: map[*Task]int{}, maxLost: maxLost}
	n := len(rootSets)
	errs := make([]error, n)
	roots := make([][]*Task, n)
	done := make(chan int, n)
	for k := range rootSets {
		for _, i := range rootSets[k] {
			roots[k] = append(roots[k], g.tasks[i])
		}
		k := k
		go func() {
			errs[k] = Eval(context.Background(), ex, roots[k], nil)
			done <- k
		}()
	}
	for range rootSets {
		<-done
	}
	zz.Reach("all evaluations returned")
	for _, t := range g.tasks {
		zz.Assert(ex.runs[t] <= 1+ex.losses[t], "a shared task is executed by exactly one of the runs (once more per loss)")
	}
	allOK := true
	for k := range errs {
		if errs[k] != nil {
			allOK = false
		}
	}
	if allOK {
		// (a failed run returns at once and may leave other tasks executing)
		for _, t := range g.tasks {
			zz.Assert(!ex.running[t], "no task is still executing when all runs have returned successfully")
		}
	}
	for k := range rootSets {
		cl := zzClosure(roots[k])
		anyErr := false
		for _, t := range cl {
			if t.state == TaskErr {
				anyErr = true
			}
		}
		if errs[k] == nil {
			zz.Reach("a run succeeded")
			for _, r := range roots[k] {
				for _, t := range r.Phase() {
					zz.Assert(t.state == TaskOk, "a run reports success only when every one of its roots is OK")
				}
			}
			for _, t := range cl {
				zz.Assert(ex.runs[t] >= 1 || t.state == TaskOk, "every needed task was executed by some run")
			}
		} else {
			zz.Reach("a run failed")
			zz.Assert(anyErr, "a run reports an error only when a task it depends on failed fatally")
		}
	}
	if n == 2 && errs[0] == nil && errs[1] != nil || n == 2 && errs[0] != nil && errs[1] == nil {
		zz.Reach("one run failed, the other succeeded")
	}
}

// same roots in both runs (the second run awaits the first's tasks)
func zzH_C19_sameRoot_single() { zzConcurrentEvals(5, [][]int{{0}, {0}}, 1) }
func zzH_C19_sameRoot_chain()  { zzConcurrentEvals(6, [][]int{{1}, {1}}, 1) }

// different roots sharing a dependency (results shared between runs)
func zzH_C19_sharedDep() { zzConcurrentEvals(2, [][]int{{1}, {2}}, 1) }

// one run's root is the other run's dependency (a result reused as an argument)
func zzH_C19_reuse() { zzConcurrentEvals(6, [][]int{{0}, {1}}, 1) }

// shuffle: group of producers shared by two consumers evaluated by different runs
func zzH_C19_shuffle() { zzConcurrentEvals(3, [][]int{{2}, {3}}, 1) }

// three runs
func zzH_C19_three() { zzConcurrentEvals(6, [][]int{{0}, {1}, {1}}, 0) }

// one run needs {t, x}, the other only t: when x fails the first run is gone
// while t may still be lost and must then be resubmitted by the run that is
// left, although it did not submit t itself
func zzH_C19_runnerGone() { zzConcurrentEvals(8, [][]int{{0, 1}, {0}}, 1) }
