//go:build verif

package exec

import (
	"sync"

	zz "github.com/grailbio/bigslice/internal/zzverif"
)

// zzH_T_sched: self-test of the engine's cooperative goroutine scheduler:
// unbuffered rendezvous, select against select, mutex, WaitGroup, close.
func zzH_T_sched() {
	c := make(chan int)
	done := make(chan struct{})
	var mu sync.Mutex
	var wg sync.WaitGroup
	total := 0
	a, b := zz.AnyInt("a"), zz.AnyInt("b")
	wg.Add(2)
	go func() {
		defer wg.Done()
		c <- a
		select {
		case c <- b:
		case <-done:
		}
	}()
	go func() {
		defer wg.Done()
		mu.Lock()
		total += 1000
		mu.Unlock()
	}()
	x := <-c
	var y int
	select {
	case y = <-c:
	}
	mu.Lock()
	total += x + y
	mu.Unlock()
	close(done)
	wg.Wait()
	zz.Assert(total == a+b+1000, "scheduler self-test: values transferred and summed")
	zz.Reach("sched ok")
}
