//go:build verif

package exec

import (
	"sync"

	zz "github.com/grailbio/bigslice/internal/zzverif"
)

// zzH_T_sched: self-test of the engine's cooperative goroutine scheduler:
// unbuffered rendezvous, select against select, mutex, WaitGroup, close.
func zzH_T_sched() {
	c := make(chan int)
	done := make(chan struct{})
	var mu sync.Mutex
	var wg sync.WaitGroup
	total := 0
	a, b := zz.AnyInt("a"), zz.AnyInt("b")
	wg.Add(2)
	go func() {
		defer wg.Done()
		c <- a
		select {
		case c <- b:
		case <-done:
		}
	}()
	go func() {
		defer wg.Done()
		mu.Lock()
		total += 1000
		mu.Unlock()
	}()
	x := <-c
	var y int
	select {
	case y = <-c:
	}
	mu.Lock()
	total += x + y
	mu.Unlock()
	close(done)
	wg.Wait()
	zz.Assert(total == a+b+1000, "scheduler self-test: values transferred and summed")
	zz.Reach("sched ok")
}

// zzH_T_limiter: the real base/limiter under the scheduler.
func zzH_T_limiter() {
	l := zzNewLimiter()
	l.Release(2)
	done := make(chan int, 2)
	for k := 0; k < 2; k++ {
		go func() {
			if err := l.Acquire(zzBG(), 2); err != nil {
				panic(err)
			}
			l.Release(2)
			done <- 1
		}()
	}
	<-done
	<-done
	zz.Reach("limiter ok")
}

func zzH_T_lim1() {
	l := zzNewLimiter()
	l.Release(2)
	zz.Reach("released")
	if err := l.Acquire(zzBG(), 2); err != nil {
		panic(err)
	}
	zz.Reach("acquired")
}

func zzH_T_lim0() {
	c := make(chan int, 1)
	w := make(chan struct{}, 1)
	w <- struct{}{}
	var nilc chan struct{}
	select {
	case <-w:
		zz.Reach("got waiter")
	case <-nilc:
	}
	n := 2
	for {
		select {
		case c <- n:
			zz.Reach("sent")
			return
		case have := <-c:
			n += have
		}
	}
}
