//go:build verif

package exec

import (
	"context"
	"strings"

	"github.com/grailbio/base/errors"

	"github.com/grailbio/base/limiter"
	"github.com/grailbio/base/sync/ctxsync"
	"github.com/grailbio/bigslice/frame"
	zz "github.com/grailbio/bigslice/internal/zzverif"
	"github.com/grailbio/bigslice/slicefunc"
	"github.com/grailbio/bigslice/sliceio"
	"github.com/grailbio/bigslice/stats"
)

// Worker-side combining (run under the cooperative scheduler: CommitCombiner
// starts a writer goroutine and waits on a condition variable).

func zzNewCombWorker(tasks map[TaskName]*Task) (*worker, *memoryStore) {
	st := newMemoryStore()
	w := &worker{
		store:          st,
		tasks:          map[uint64]map[TaskName]*Task{1: tasks},
		taskStats:      map[uint64]map[TaskName]*stats.Map{1: {}},
		stats:          stats.NewMap(),
		combiners:      map[TaskName][]chan *combiner{},
		combinerStates: map[TaskName]combinerState{},
		combinerErrors: map[TaskName]error{},
		commitLimiter:  limiter.New(),
	}
	w.cond = ctxsync.NewCond(&w.mu)
	w.commitLimiter.Release(2)
	for n := range tasks {
		w.taskStats[1][n] = stats.NewMap()
	}
	return w, st
}

func zzCombTask(op string, key string, fd *zzFed, n int, chunky bool) *Task {
	fn, _ := slicefunc.Of(zzAdd64)
	name := TaskName{InvIndex: 1, Op: op, Shard: 0, NumShard: 1}
	t := &Task{Name: name, Type: zzCombTyp, NumPartition: 1, Combiner: fn, CombineKey: key}
	f := fd.feed(n, op)
	t.Partitioner = func(ctx context.Context, f frame.Frame, nshard int, shards []int) {
		for i := range shards {
			shards[i] = 0
		}
	}
	t.Do = func([]sliceio.Reader) sliceio.Reader {
		if chunky {
			return &zzOneByOne{f: f}
		}
		return sliceio.FrameReader(f)
	}
	return t
}

// zzOneByOne serves a frame one row per Read (so that the read buffer of the
// caller is reused between rows).
type zzOneByOne struct {
	f   frame.Frame
	pos int
}

func (r *zzOneByOne) Read(ctx context.Context, out frame.Frame) (int, error) {
	if r.pos >= r.f.Len() {
		return 0, sliceio.EOF
	}
	frame.Copy(out, r.f.Slice(r.pos, r.pos+1))
	r.pos++
	return 1, nil
}

func zzStoredRows(k int) ([]zzKey, []int64) {
	if k >= len(zzEncOrder) {
		return nil, nil
	}
	ze := zzEncOrder[k]
	ks := make([]zzKey, len(ze.keys))
	for i := range ks {
		ks[i] = zzKey(ze.keys[i])
	}
	return ks, ze.vals
}

// zzH_C09_workerCombine: a task with a combiner on a worker (its own combine
// key): what it commits to the store is one row per distinct key, ascending,
// carrying the fold of that key's values, for any rows and any read chunking.
func zzH_C09_workerCombine() {
	zzRegisterKey()
	zzConstHash = true
	defer func() { zzConstHash = false }()
	old := *defaultChunksize
	*defaultChunksize = 2
	defer func() { *defaultChunksize = old }()
	ctx := context.Background()
	fd := &zzFed{}
	t := zzCombTask("t", "", fd, zz.AnyIntIn("rows", 0, 3), zz.AnyBool("oneRowPerRead"))
	w, st := zzNewCombWorker(map[TaskName]*Task{t.Name: t})
	zzEncs, zzEncOrder, zzEncFailAt, zzEncWrites = map[*sliceio.Encoder]*zzEnc{}, nil, -1, 0
	var reply taskRunReply
	err := w.Run(ctx, taskRunRequest{Name: t.Name, Invocation: 1}, &reply)
	zz.Assert(err == nil && t.state == TaskOk, "a healthy combining task succeeds")
	if err != nil {
		return
	}
	info, serr := st.Stat(ctx, t.Name, 0)
	zz.Assert(serr == nil, "the combined output is committed under the task's name")
	gk, gv := zzStoredRows(0)
	fd.check(gk, gv, "worker-combined output", true)
	zz.Assert(serr != nil || info.Records == int64(len(gk)), "the committed record count matches the rows written")
	zz.Reach("worker combine committed")
	if len(gk) < len(fd.keys) {
		zz.Reach("keys combined on the worker")
	}
}

// zzH_C09_machineCombine: two tasks sharing a machine combine key run on one
// worker, then the shared buffer is committed: the store holds, under the
// combine key, one row per distinct key of BOTH tasks with the fold of all
// their values; nothing is stored under the tasks' own names; committing
// twice is harmless; a task run after the commit fails instead of silently
// dropping its rows.
func zzH_C09_machineCombine() {
	zzRegisterKey()
	zzConstHash = true
	defer func() { zzConstHash = false }()
	old := *defaultChunksize
	*defaultChunksize = 2
	defer func() { *defaultChunksize = old }()
	ctx := context.Background()
	fd := &zzFed{}
	t1 := zzCombTask("t1", "ck", fd, zz.AnyIntIn("rows1", 0, 2), false)
	t2 := zzCombTask("t2", "ck", fd, zz.AnyIntIn("rows2", 0, 2), zz.AnyBool("oneRowPerRead"))
	late := zzCombTask("t3", "ck", &zzFed{}, 1, false)
	w, st := zzNewCombWorker(map[TaskName]*Task{t1.Name: t1, t2.Name: t2, late.Name: late})
	zzEncs, zzEncOrder, zzEncFailAt, zzEncWrites = map[*sliceio.Encoder]*zzEnc{}, nil, -1, 0
	var reply taskRunReply
	zz.Assert(w.Run(ctx, taskRunRequest{Name: t1.Name, Invocation: 1}, &reply) == nil, "the first task succeeds")
	zz.Assert(w.Run(ctx, taskRunRequest{Name: t2.Name, Invocation: 1}, &reply) == nil, "the second task succeeds")
	_, e1 := st.Stat(ctx, t1.Name, 0)
	_, e2 := st.Stat(ctx, t2.Name, 0)
	zz.Assert(e1 != nil && e2 != nil, "tasks with a machine combiner store nothing under their own names")
	key := TaskName{Op: "ck"}
	_, e3 := st.Stat(ctx, key, 0)
	zz.Assert(e3 != nil, "the shared buffer is not visible before it is committed")
	zz.Assert(w.CommitCombiner(ctx, key, nil) == nil, "committing the shared buffer succeeds")
	info, e4 := st.Stat(ctx, key, 0)
	zz.Assert(e4 == nil, "the shared buffer is committed under the combine key")
	gk, gv := zzStoredRows(0)
	fd.check(gk, gv, "machine-combined output", true)
	zz.Assert(e4 != nil || info.Records == int64(len(gk)), "the committed record count matches the rows written")
	zz.Assert(w.CommitCombiner(ctx, key, nil) == nil, "committing again is harmless")
	zz.Assert(len(zzEncOrder) == 1, "the shared buffer is written exactly once")
	zz.Reach("machine combine committed")
	lerr := w.Run(ctx, taskRunRequest{Name: late.Name, Invocation: 1}, &reply)
	zz.Assert(lerr != nil, "a task that combines into an already committed buffer fails (its rows would be lost)")
	if len(gk) < len(fd.keys) {
		zz.Reach("keys combined across tasks")
	}
}

// zzH_C09_workerCombineFlush: enough distinct keys in one partition (five
// concrete ones plus two solver-chosen ones, all values symbolic) that the
// per-task table passes half of its capacity and is flushed into the machine
// combiner in mid-stream, while the read buffer keeps being reused: the
// committed output is still one folded row per key.
func zzH_C09_workerCombineFlush() {
	zzRegisterKey()
	zzConstHash = true
	defer func() { zzConstHash = false }()
	old := *defaultChunksize
	*defaultChunksize = 2
	defer func() { *defaultChunksize = old }()
	ctx := context.Background()
	fd := &zzFed{}
	const n = 7
	ks, vs := make([]zzKey, n), make([]int64, n)
	for i := 0; i < n; i++ {
		ks[i], vs[i] = zzKey(i+1), zz.AnyInt64("val")
	}
	ks[5] = zzKey(zz.AnyInt64("key")) // may repeat an earlier key, or be new
	ks[6] = zzKey(zz.AnyInt64("key"))
	fd.keys, fd.vals = ks, vs
	fn, _ := slicefunc.Of(zzAdd64)
	name := TaskName{InvIndex: 1, Op: "t", Shard: 0, NumShard: 1}
	t := &Task{Name: name, Type: zzCombTyp, NumPartition: 1, Combiner: fn}
	t.Partitioner = func(ctx context.Context, f frame.Frame, nshard int, shards []int) {
		for i := range shards {
			shards[i] = 0
		}
	}
	f := frame.Slices(append([]zzKey(nil), ks...), append([]int64(nil), vs...))
	oneByOne := zz.AnyBool("oneRowPerRead")
	t.Do = func([]sliceio.Reader) sliceio.Reader {
		if oneByOne {
			return &zzOneByOne{f: f}
		}
		return sliceio.FrameReader(f)
	}
	w, st := zzNewCombWorker(map[TaskName]*Task{t.Name: t})
	zzEncs, zzEncOrder, zzEncFailAt, zzEncWrites = map[*sliceio.Encoder]*zzEnc{}, nil, -1, 0
	var reply taskRunReply
	err := w.Run(ctx, taskRunRequest{Name: t.Name, Invocation: 1}, &reply)
	zz.Assert(err == nil && t.state == TaskOk, "a healthy combining task succeeds")
	if err != nil {
		return
	}
	_, serr := st.Stat(ctx, t.Name, 0)
	zz.Assert(serr == nil, "the combined output is committed under the task's name")
	gk, gv := zzStoredRows(0)
	fd.check(gk, gv, "worker-combined output after a mid-stream flush", true)
	zz.Reach("worker combine with mid-stream flush committed")
}

// zzH_C06_workerCombinerPanic: the user's reduce combiner panics on a worker
// (two rows with equal keys meet in the per-task table): Run returns a FATAL
// error carrying the panic value and leaves the worker's task in error.
func zzH_C06_workerCombinerPanic() {
	zzRegisterKey()
	zzConstHash = true
	defer func() { zzConstHash = false }()
	old := *defaultChunksize
	*defaultChunksize = 2
	defer func() { *defaultChunksize = old }()
	ctx := context.Background()
	fd := &zzFed{}
	t := zzCombTask("t", "", fd, zz.AnyIntIn("rows", 0, 3), zz.AnyBool("oneRowPerRead"))
	t.Combiner, _ = slicefunc.Of(zzPanicAdd64)
	dup := false
	for i := range fd.keys {
		for j := 0; j < i; j++ {
			dup = zz.Or(dup, fd.keys[i] == fd.keys[j])
		}
	}
	w, st := zzNewCombWorker(map[TaskName]*Task{t.Name: t})
	zzEncs, zzEncOrder, zzEncFailAt, zzEncWrites = map[*sliceio.Encoder]*zzEnc{}, nil, -1, 0
	var reply taskRunReply
	err := w.Run(ctx, taskRunRequest{Name: t.Name, Invocation: 1}, &reply)
	if dup {
		zz.Reach("combiner panicked on the worker")
		zz.Assert(err != nil && errors.Match(fatalErr, err), "a panic in the user's combiner is returned by the worker as a FATAL error")
		zz.Assert(err != nil && strings.Contains(err.Error(), zzUserMsg), "the error carries the panic value")
		zz.Assert(t.state == TaskErr, "the worker's task is in error")
		// (runCombine's deferred commit runs while the panic unwinds, so a
		// partial buffer may be committed under the task's name; the task is
		// in fatal error, so no consumer ever reads it - the property does
		// not forbid this, and it is not asserted.)
		_ = st
	} else {
		zz.Reach("combiner never called")
		zz.Assert(err == nil, "without equal keys the task succeeds")
	}
}
