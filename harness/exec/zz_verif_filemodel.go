//go:build verif

package exec

import (
	"context"
	"errors"
	"io"
	"time"

	"github.com/grailbio/base/file"
	zz "github.com/grailbio/bigslice/internal/zzverif"
)

// Model of grailbio/base/file following its documented contract:
// "Close commits the contents of a written file", "Discard discards a file
// before it is closed", every operation may fail independently.

var zzErrIO = errors.New("zz: injected I/O failure")

type zzFS struct {
	files    map[string][]byte // committed (visible) contents
	maxFail  int
	fails    int
	failedAt []string
}

var zzTheFS *zzFS

func zzNewFS(maxFail int) *zzFS {
	zzTheFS = &zzFS{files: map[string][]byte{}, maxFail: maxFail}
	return zzTheFS
}

func (fs *zzFS) fail(op string) bool {
	if fs.fails < fs.maxFail && zz.AnyBool("fail_"+op) {
		fs.fails++
		fs.failedAt = append(fs.failedAt, op)
		return true
	}
	return false
}

func (fs *zzFS) failed(op string) bool {
	for _, f := range fs.failedAt {
		if f == op {
			return true
		}
	}
	return false
}

type zzFile struct {
	fs        *zzFS
	path      string
	writing   bool
	wbuf      []byte
	data      []byte
	closed    bool
	discarded bool
}

type zzInfo struct{ size int64 }

func (i zzInfo) Size() int64        { return i.size }
func (i zzInfo) ModTime() time.Time { return time.Time{} }

func (f *zzFile) String() string { return f.path }
func (f *zzFile) Name() string   { return f.path }
func (f *zzFile) Stat(ctx context.Context) (file.Info, error) {
	if f.fs.fail("stat") {
		return nil, zzErrIO
	}
	return zzInfo{int64(len(f.data))}, nil
}
func (f *zzFile) Reader(ctx context.Context) io.ReadSeeker { return &zzFileReader{f: f} }
func (f *zzFile) Writer(ctx context.Context) io.Writer     { return &zzFileWriter{f: f} }
func (f *zzFile) Discard(ctx context.Context) {
	zz.Assert(!f.closed, "file contract: Discard not after Close")
	f.discarded = true
}
func (f *zzFile) Close(ctx context.Context) error {
	zz.Assert(!f.closed && !f.discarded, "file contract: exactly one of Close or Discard")
	f.closed = true
	if !f.writing {
		return nil
	}
	if f.fs.fail("close") {
		return zzErrIO
	}
	f.fs.files[f.path] = append([]byte(nil), f.wbuf...)
	return nil
}

type zzFileWriter struct{ f *zzFile }

func (w *zzFileWriter) Write(p []byte) (int, error) {
	if w.f.fs.fail("write") {
		// a failed write may have written any prefix
		k := 0
		if len(p) > 0 {
			k = zz.AnyIntIn("partialWrite", 0, len(p)-1)
		}
		w.f.wbuf = append(w.f.wbuf, p[:k]...)
		return k, zzErrIO
	}
	w.f.wbuf = append(w.f.wbuf, p...)
	return len(p), nil
}

type zzFileReader struct {
	f   *zzFile
	pos int64
}

func (r *zzFileReader) Seek(off int64, whence int) (int64, error) {
	if r.f.fs.fail("seek") {
		return 0, zzErrIO
	}
	switch whence {
	case io.SeekStart:
	case io.SeekCurrent:
		off += r.pos
	case io.SeekEnd:
		off += int64(len(r.f.data))
	}
	if off < 0 {
		return 0, errors.New("zz: negative seek")
	}
	r.pos = off
	return off, nil
}

func (r *zzFileReader) Read(p []byte) (int, error) {
	if r.pos >= int64(len(r.f.data)) {
		return 0, io.EOF
	}
	n := copy(p, r.f.data[r.pos:])
	r.pos += int64(n)
	return n, nil
}

func zzStubFileCreate(ctx context.Context, path string, opts ...file.Opts) (file.File, error) {
	if zzTheFS.fail("create") {
		return nil, zzErrIO
	}
	return &zzFile{fs: zzTheFS, path: path, writing: true}, nil
}

func zzStubFileOpen(ctx context.Context, path string, opts ...file.Opts) (file.File, error) {
	d, ok := zzTheFS.files[path]
	if !ok {
		return nil, errors.New("zz: no such file")
	}
	if zzTheFS.fail("open") {
		return nil, zzErrIO
	}
	return &zzFile{fs: zzTheFS, path: path, data: d}, nil
}

func zzStubFileRemove(ctx context.Context, path string) error {
	if _, ok := zzTheFS.files[path]; !ok {
		return errors.New("zz: no such file")
	}
	if zzTheFS.fail("remove") {
		return zzErrIO
	}
	delete(zzTheFS.files, path)
	return nil
}
