//go:build verif

package exec

import (
	"context"
	goerrors "errors"

	"github.com/grailbio/base/errors"
	"github.com/grailbio/base/status"
	"github.com/grailbio/bigmachine"
	zz "github.com/grailbio/bigslice/internal/zzverif"
	"github.com/grailbio/bigslice/stats"
)

// Error menu: what a machine loss / worker failure looks like to the driver
// code is an error value returned by an RPC stub.
const (
	zzErrNil = iota
	zzErrPlain
	zzErrCtxCanceled
	zzErrNet
	zzErrUnavailable
	zzErrRemotePlain
	zzErrRemoteFatal
	zzErrLocalFatal
	zzErrInvalidFatal
	zzErrFatalUnavailable
	zzErrKinds
)

func zzMakeErr(k int) error {
	switch k {
	case zzErrNil:
		return nil
	case zzErrPlain:
		return goerrors.New("zz: plain error")
	case zzErrCtxCanceled:
		return context.Canceled
	case zzErrNet:
		return errors.E(errors.Net, "zz: connection reset")
	case zzErrUnavailable:
		return errors.E(errors.Unavailable, "zz: machine unavailable")
	case zzErrRemotePlain:
		return errors.E(errors.Remote, goerrors.New("zz: remote failure"))
	case zzErrRemoteFatal:
		return errors.E(errors.Remote, errors.E(errors.Fatal, "zz: user code failed"))
	case zzErrLocalFatal:
		return errors.E(errors.Fatal, "zz: local fatal")
	case zzErrInvalidFatal:
		return errors.E(errors.Invalid, errors.Fatal, "zz: cannot encode argument")
	case zzErrFatalUnavailable:
		// how bigmachine reports a machine that stopped (keepalive failure)
		return errors.E(errors.Fatal, errors.Unavailable, "zz: keepalive failed")
	}
	panic("zz: bad error kind")
}

// stub state
var (
	zzOfferMachine  *sliceMachine
	zzOfferProcs    int
	zzOfferCancels  int
	zzCompileErr    error
	zzCompileCalls  int
	zzCommitErr     error
	zzRunErr        error
	zzRunCalls      int
	zzCheckInvErr   error
	zzMgr           *machineManager
)

func zzStubManager(b *bigmachineExecutor, i int) *machineManager { return zzMgr }

func zzStubOffer(m *machineManager, priority, procs int) (<-chan *sliceMachine, func()) {
	zzOfferProcs = procs
	c := make(chan *sliceMachine, 1)
	c <- zzOfferMachine
	return c, func() { zzOfferCancels++ }
}

func zzStubCheckInv(b *bigmachineExecutor, invIndex uint64) error { return zzCheckInvErr }

func zzStubCompile(b *bigmachineExecutor, ctx context.Context, m *sliceMachine, invIndex uint64) error {
	zzCompileCalls++
	if zzCompileCalls > 1 {
		return nil // a forgotten compilation succeeds when retried
	}
	return zzCompileErr
}

func zzStubCommit(b *bigmachineExecutor, ctx context.Context, m *sliceMachine, key string) error {
	return zzCommitErr
}

func zzStubRetryCall(m *bigmachine.Machine, ctx context.Context, method string, arg, reply interface{}) error {
	if method == "Worker.Run" {
		zzRunCalls++
		return zzRunErr
	}
	if method == "Worker.Discard" {
		return zzDiscardErr
	}
	return nil
}

// zzDiscardErr is what the Worker.Discard RPC returns.
var zzDiscardErr error

func zzStubUpdateStatus(s *sliceMachine) {}

type zzProcsPragma struct {
	procs     int
	exclusive bool
}

func (p zzProcsPragma) Procs() int        { return p.procs }
func (p zzProcsPragma) Exclusive() bool   { return p.exclusive }
func (p zzProcsPragma) Materialize() bool { return false }

// zzH_C02_run: one task run on the distributed executor. For every error value
// at every RPC call site (compile, combiner commit, Worker.Run) the task ends in
// state OK, ERR or LOST (the evaluator can never wait forever); OK only if
// Worker.Run succeeded; transport-level failures (machine loss) give LOST, so
// that the evaluator resubmits; and the machine's procs are returned exactly
// once with the clamped proc count on every path.
func zzH_C02_run() {
	machprocs := zz.AnyIntIn("machprocs", 1, 3)
	want := zz.AnyInt("procs")
	zz.Assume(zz.And(want >= 1, want <= 1<<20))
	excl := zz.AnyBool("exclusive")
	zzMgr = &machineManager{machprocs: machprocs}
	donec := make(chan machineDone, 8)
	mach := &sliceMachine{Machine: &bigmachine.Machine{Addr: "zz-machine"}, Stats: stats.NewMap(), tasks: map[*Task]struct{}{}, donec: donec, maxTaskProcs: machprocs}
	zzOfferMachine = mach
	b := &bigmachineExecutor{
		sess:           &Session{},
		locations:      map[*Task]*sliceMachine{},
		invocations:    map[uint64]execInvocation{},
		invocationDeps: map[uint64]map[uint64]bool{},
	}
	inv := zzInv(1)
	// dependencies: 0..2 tasks already OK on some machine; optionally with a
	// combine key that must be committed first
	nd := zz.AnyIntIn("deps", 0, 2)
	task := &Task{Name: TaskName{Op: "t", NumShard: 1}, Invocation: inv, Pragma: zzProcsPragma{want, excl}}
	withKey := nd > 0 && zz.AnyBool("combineKey")
	for i := 0; i < nd; i++ {
		d := &Task{Name: TaskName{Op: "dep", Shard: i, NumShard: nd}, state: TaskOk}
		b.locations[d] = mach
		dep := TaskDep{Head: d}
		if withKey {
			dep.CombineKey = "ck"
		}
		task.Deps = append(task.Deps, dep)
	}
	task.state = TaskWaiting // Eval hands tasks over in WAITING
	zzCheckInvErr = zzMakeErr(zz.AnyIntIn("checkInvErr", 0, 1))
	compileKind := zz.AnyIntIn("compileErr", 0, zzErrKinds-1)
	zzCompileErr = zzMakeErr(compileKind)
	zzCommitErr = zzMakeErr(zz.AnyIntIn("commitErr", 0, 1))
	runKind := zz.AnyIntIn("runErr", 0, zzErrKinds-1)
	zzRunErr = zzMakeErr(runKind)
	zzCompileCalls, zzRunCalls, zzOfferCancels = 0, 0, 0

	b.Run(task)

	st := task.state
	zz.Assert(st == TaskOk || st == TaskErr || st == TaskLost, "after Run the task is in state OK, ERR or LOST (never left waiting/running)")
	if st == TaskErr {
		zz.Assert(task.err != nil, "a task in error carries its error")
	}
	// procs accounting (C14)
	dones, procsBack := 0, 0
	for len(donec) > 0 {
		d := <-donec
		dones++
		procsBack = d.procs
		zz.Assert(d.sliceMachine == mach, "procs are returned to the machine that was offered")
	}
	clamp := want
	if excl || want > machprocs {
		clamp = machprocs
	}
	if zzCheckInvErr != nil {
		zz.Reach("invocation not serializable")
		zz.Assert(st == TaskErr, "an invocation that cannot be serialized is a fatal task error")
		zz.Assert(dones == 0, "no procs are returned before a machine was acquired")
		return
	}
	zz.Assert(zz.And(zzOfferProcs >= 1, zzOfferProcs <= machprocs), "requested procs are clamped to [1, machine task procs]")
	zz.Assert(zzOfferProcs == clamp, "exclusive tasks request the whole machine; others their pragma, clamped")
	zz.Assert(dones == 1, "the machine's procs are returned exactly once when the task run ends")
	if dones == 1 {
		zz.Assert(procsBack == zzOfferProcs, "exactly the procs that were acquired are returned")
	}
	ranWorker := zzRunCalls > 0
	if st == TaskOk {
		zz.Reach("task ok")
		zz.Assert(ranWorker && zzRunErr == nil, "a task is OK only if Worker.Run succeeded")
		zz.Assert(b.location(task) == mach, "the location of an OK task is recorded")
		_, assigned := mach.tasks[task]
		zz.Assert(assigned, "an OK task is assigned to its machine (so that machine loss marks it LOST)")
	}
	if ranWorker && zzRunErr != nil {
		switch runKind {
		case zzErrRemoteFatal:
			zz.Reach("fatal remote error")
			zz.Assert(st == TaskErr, "a fatal error from the worker's task code fails the task")
		default:
			zz.Reach("task lost")
			zz.Assert(st == TaskLost, "any other Worker.Run failure (machine loss, transport, non-fatal) marks the task LOST for resubmission")
		}
	}
	if zzRunCalls == 0 && st == TaskLost {
		zz.Reach("lost while compiling")
	}
	// classification of a failed compilation on the machine
	if zzCompileErr != nil && compileKind != zzErrCtxCanceled {
		switch compileKind {
		case zzErrRemotePlain, zzErrRemoteFatal, zzErrInvalidFatal:
			zz.Reach("compilation failed fatally")
			zz.Assert(st == TaskErr && !ranWorker, "a compilation that fails on the worker, or whose arguments cannot be encoded, fails the task")
		default:
			zz.Reach("machine lost while compiling")
			zz.Assert(st == TaskLost && !ranWorker, "any other compilation failure (machine stopped, transport, unavailable) marks the task LOST so that it is recomputed elsewhere")
		}
	}
}

// --- scanning a result while machines are lost: the reopen path ---

var (
	zzEvalCalls   int
	zzEvalErr     error
	zzEvalMoveTo  *sliceMachine // if set, "Eval" recomputes the task there
	zzEvalB       *bigmachineExecutor
	zzReadAddrs   []string
	zzReadOffsets []int64
)

func zzStubEval(ctx context.Context, executor Executor, roots []*Task, group *status.Group) error {
	zzEvalCalls++
	if zzEvalErr != nil {
		return zzEvalErr
	}
	if zzEvalMoveTo != nil {
		// the task's output was lost with its machine; the evaluator
		// recomputed it on a replacement machine
		zzEvalB.setLocation(roots[0], zzEvalMoveTo)
		roots[0].state = TaskOk
	}
	return nil
}

func zzStubRetryCallRead(m *bigmachine.Machine, ctx context.Context, method string, arg, reply interface{}) error {
	if method == "Worker.Read" {
		zzReadAddrs = append(zzReadAddrs, m.Addr)
		zzReadOffsets = append(zzReadOffsets, arg.(readRequest).Offset)
	}
	return nil
}

// zzH_C02_scanReopen: the opener behind a result scan. Every (re)open first
// re-evaluates the task and then reads from the machine that holds the task's
// output NOW - also when the machine used by an earlier open was lost and the
// task was recomputed elsewhere - at the requested offset; an evaluation error
// is returned, not swallowed.
func zzH_C02_scanReopen() {
	a := &sliceMachine{Machine: &bigmachine.Machine{Addr: "machine-A"}}
	bm := &sliceMachine{Machine: &bigmachine.Machine{Addr: "machine-B"}}
	b := &bigmachineExecutor{locations: map[*Task]*sliceMachine{}}
	zzEvalB = b
	task := &Task{Name: TaskName{Op: "root", NumShard: 1}, state: TaskOk}
	b.setLocation(task, a)
	e := &evalOpenerAt{Executor: b, Task: task, Partition: 0}
	zzEvalCalls, zzEvalErr, zzEvalMoveTo, zzReadAddrs, zzReadOffsets = 0, nil, nil, nil, nil
	ctx := context.Background()
	off1 := zz.AnyInt64("offset1")
	_, err := e.OpenAt(ctx, off1)
	zz.Assert(err == nil && zzEvalCalls == 1, "an open evaluates the task first")
	zz.Assert(len(zzReadAddrs) == 1 && zzReadAddrs[0] == "machine-A" && zzReadOffsets[0] == off1, "the first open reads from the machine holding the output, at the requested offset")
	// between the opens: nothing / machine lost and task recomputed on B / evaluation fails
	switch zz.AnyIntIn("between", 0, 2) {
	case 1:
		zzEvalMoveTo = bm
		task.state = TaskLost
		zz.Reach("recomputed on a replacement machine")
	case 2:
		zzEvalErr = zzErrTask
		zz.Reach("re-evaluation failed")
	}
	off2 := zz.AnyInt64("offset2")
	_, err = e.OpenAt(ctx, off2)
	if zzEvalErr != nil {
		zz.Assert(err != nil && len(zzReadAddrs) == 1, "a failed re-evaluation is reported and nothing is read")
		return
	}
	zz.Assert(err == nil && zzEvalCalls == 2, "a reopen re-evaluates the task")
	want := "machine-A"
	if zzEvalMoveTo != nil {
		want = "machine-B"
	}
	zz.Assert(len(zzReadAddrs) == 2 && zzReadAddrs[1] == want, "a reopen reads from the machine that holds the task's output now")
	zz.Assert(zzReadOffsets[1] == off2, "a reopen resumes at the requested offset")
}
