//go:build verif

package exec

import (
	"context"
	"reflect"

	"github.com/grailbio/bigslice/frame"
	zz "github.com/grailbio/bigslice/internal/zzverif"
	"github.com/grailbio/bigslice/slicefunc"
	"github.com/grailbio/bigslice/sliceio"
	"github.com/grailbio/bigslice/slicetype"
)

// zzKey is a key type whose hash is an uninterpreted function of the key, so
// that one exploration covers every collision pattern, probe sequence and
// resize order any hash function could produce.
type zzKey int64

var zzKeyRegistered bool

// zzConstHash makes every key hash to 0 (all keys collide): used by the
// spill/merge harness, whose subject is not the probing (see step4).
var zzConstHash bool

func zzRegisterKey() {
	if zzKeyRegistered {
		return
	}
	zzKeyRegistered = true
	frame.RegisterOps(func(slice []zzKey) frame.Ops {
		return frame.Ops{
			Less: func(i, j int) bool { return slice[i] < slice[j] },
			HashWithSeed: func(i int, seed uint32) uint32 {
				if zzConstHash {
					return 0
				}
				return zz.UFUint32("keyHash", int64(slice[i]))
			},
		}
	})
}

var zzCombTyp = slicetype.New(reflect.TypeOf(zzKey(0)), reflect.TypeOf(int64(0)))

func zzAdd64(a, b int64) int64 { return a + b }

type zzFed struct {
	keys []zzKey
	vals []int64
}

func (fd *zzFed) feed(n int, tag string) frame.Frame {
	ks, vs := make([]zzKey, n), make([]int64, n)
	for i := 0; i < n; i++ {
		ks[i] = zzKey(zz.AnyInt64(tag + "_key"))
		vs[i] = zz.AnyInt64(tag + "_val")
	}
	fd.keys = append(fd.keys, ks...)
	fd.vals = append(fd.vals, vs...)
	return frame.Slices(ks, vs)
}

// check asserts that rows (gk, gv) hold exactly one row per distinct fed key
// with the sum of that key's values.
func (fd *zzFed) check(gk []zzKey, gv []int64, what string, ascending bool) {
	for i := range gk {
		for j := i + 1; j < len(gk); j++ {
			zz.Assert(gk[i] != gk[j], what+": exactly one row per distinct key")
		}
		if ascending && i > 0 {
			zz.Assert(gk[i-1] < gk[i], what+": rows in ascending key order")
		}
		var sum int64
		present := false
		for k := range fd.keys {
			eq := fd.keys[k] == gk[i]
			sum += zz.IteInt64(eq, fd.vals[k], 0)
			present = zz.Or(present, eq)
		}
		zz.Assert(present, what+": every row's key was fed")
		zz.Assert(gv[i] == sum, what+": the value is the fold of all values fed for the key")
	}
	for k := range fd.keys {
		found := false
		for i := range gk {
			found = zz.Or(found, gk[i] == fd.keys[k])
		}
		zz.Assert(found, what+": every fed key is present")
	}
}

// zzH_C09_table: the combining hash table from its initial state (capacity 4,
// scratch 2): after feeding k rows in arbitrary batches, it holds one slot per
// distinct key with the folded value, Len is the number of distinct keys, and
// Compact returns exactly those rows and leaves the table empty — for every
// hash collision pattern, probe wrap-around and growth point.
func zzH_C09_table() { zzTableHarness(4, 2, 2) }
func zzH_C09_table_deep() { zzTableHarness(2, 1, 3) }
func zzH_C09_table_cap2() { zzTableHarness(2, 1, 2) }

func zzTableHarness(initCap, scratch, rows int) {
	zzRegisterKey()
	fn, _ := slicefunc.Of(zzAdd64)
	c := makeCombiningFrame(zzCombTyp, fn, initCap, scratch)
	fd := &zzFed{}
	left := rows
	for left > 0 {
		n := zz.AnyIntIn("batch", 1, left)
		left -= n
		c.Combine(fd.feed(n, "row"))
		// Len = number of distinct keys so far
		distinct := 0
		for i := range fd.keys {
			first := true
			for j := 0; j < i; j++ {
				first = zz.And(first, fd.keys[j] != fd.keys[i])
			}
			distinct += zz.IteInt(first, 1, 0)
		}
		zz.Assert(c.Len() == distinct, "Len is the number of distinct keys fed")
		zz.Assert(c.Len() <= c.Cap(), "the table never holds more keys than its capacity")
	}
	if c.Cap() > initCap {
		zz.Reach("table grew")
	}
	if c.Cap() > 2*initCap {
		zz.Reach("table grew twice")
	}
	f := c.Compact()
	gk := f.Interface(0).([]zzKey)
	gv := f.Interface(1).([]int64)
	fd.check(gk, gv, "compacted table", false)
	zz.Assert(c.Len() == 0, "the table is empty after Compact")
	for _, h := range c.hits {
		zz.Assert(h == 0, "no slot stays occupied after Compact")
	}
	if len(gk) < rows {
		zz.Reach("keys combined")
	}
}

// --- combiner with spilling, over an in-memory spiller model ---

var zzCRuns [][2][]int64
var zzCCleaned int

func zzStubCNewSpiller(name string) (sliceio.Spiller, error) {
	zzCRuns, zzCCleaned = nil, 0
	return sliceio.Spiller("zz-" + name), nil
}

func zzStubCSpill(dir sliceio.Spiller, f frame.Frame) (int, error) {
	n := f.Len()
	var k, v []int64
	for i := 0; i < n; i++ {
		k = append(k, f.Index(0, i).Int())
		v = append(v, f.Index(1, i).Int())
	}
	for i := 1; i < n; i++ {
		zz.Assert(k[i-1] < k[i], "a spilled run is sorted with unique keys")
	}
	zzCRuns = append(zzCRuns, [2][]int64{k, v})
	return n * 16, nil
}

func zzStubCClosingReaders(dir sliceio.Spiller) ([]sliceio.Reader, error) {
	if len(zzCRuns) > 0 && zz.AnyBool("openSpillFails") {
		return nil, zzErrIO
	}
	var rs []sliceio.Reader
	for _, run := range zzCRuns {
		ks := make([]zzKey, len(run[0]))
		for i := range ks {
			ks[i] = zzKey(run[0][i])
		}
		rs = append(rs, sliceio.FrameReader(frame.Slices(ks, run[1])))
	}
	return rs, nil
}

func zzStubCCleanup(dir sliceio.Spiller) error { zzCCleaned++; return nil }

// zzH_C09_combiner: feeding frames into a combiner with a spill threshold and
// reading it back yields one row per distinct key in ascending key order with
// the folded value, across any number of spills; temporary files are removed.
func zzH_C09_combiner() { zzCombinerHarness(2, 2) }
func zzH_C09_combiner_deep() { zzCombinerHarness(4, 1) }

func zzCombinerHarness(batches, maxRows int) {
	zzRegisterKey()
	zzConstHash = true
	defer func() { zzConstHash = false }()
	old := *defaultChunksize
	*defaultChunksize = 2
	defer func() { *defaultChunksize = old }()
	target := zz.AnyIntIn("targetSize", 1, 2)
	fn, _ := slicefunc.Of(zzAdd64)
	c, err := newCombiner(zzCombTyp, "zz", fn, target)
	zz.Assert(err == nil, "creating a combiner succeeds")
	fd := &zzFed{}
	ctx := context.Background()
	for b := 0; b < batches; b++ {
		n := zz.AnyIntIn("batch", 0, maxRows)
		zz.Assert(c.Combine(ctx, fd.feed(n, "row")) == nil, "combining succeeds")
	}
	if len(zzCRuns) >= 1 {
		zz.Reach("spilled")
	}
	if len(zzCRuns) >= 2 {
		zz.Reach("spilled twice")
	}
	r, err := c.Reader()
	zz.Assert(zzCCleaned == 1, "temporary spill files are removed when the reader is created, also when opening them fails")
	if err != nil {
		zz.Reach("opening spill files failed")
		return
	}
	var gk []zzKey
	var gv []int64
	for k := 0; k < 8; k++ {
		ok, ov := make([]zzKey, 2), make([]int64, 2)
		n, err := r.Read(ctx, frame.Slices(ok, ov))
		gk, gv = append(gk, ok[:n]...), append(gv, ov[:n]...)
		if err != nil {
			zz.Assert(err == sliceio.EOF, "reading ends with EOF")
			break
		}
	}
	fd.check(gk, gv, "combiner output", true)
}

// ---------------------------------------------------------------------
// One inductive step from an ARBITRARY table state satisfying the
// representation invariant: covers histories of any length at this capacity.

// zzProbeSeq is the slot visited at try j when probing starts at p (the
// implementation's triangular probing idx += try).
func zzProbeSeq(p, j, mask int) int {
	idx := p
	for t := 1; t <= j; t++ {
		idx = (idx + t) & mask
	}
	return idx
}

func zzHashIdx(k zzKey, mask int) int {
	return int(zz.UFUint32("keyHash", int64(k))) & mask
}

// zzTableInv is the representation invariant as a branch-free term.
func zzTableInv(c *combiningFrame, ks []zzKey) bool {
	n := c.cap
	inv := true
	cnt := 0
	for s := 0; s < n; s++ {
		occ := c.hits[s] != 0
		inv = zz.And(inv, c.hits[s] >= 0)
		cnt += zz.IteInt(occ, 1, 0)
		// distinct keys
		for t := s + 1; t < n; t++ {
			inv = zz.And(inv, zz.Implies(zz.And(occ, c.hits[t] != 0), ks[s] != ks[t]))
		}
		// reachable from its home slot through occupied slots only
		reach := false
		for p := 0; p < n; p++ {
			path := zzHashIdx(ks[s], c.mask) == p
			for j := 0; j < n; j++ {
				q := zzProbeSeq(p, j, c.mask)
				if q == s {
					break
				}
				path = zz.And(path, c.hits[q] != 0)
			}
			reach = zz.Or(reach, path)
		}
		inv = zz.And(inv, zz.Implies(occ, reach))
	}
	inv = zz.And(inv, c.len == cnt)
	inv = zz.And(inv, c.len <= c.threshold)
	return inv
}

// zzArbitraryTable builds a combining frame of capacity n whose slots, hit
// counts and length are all solver variables.
func zzArbitraryTable(n int) (*combiningFrame, []zzKey, []int64) {
	zzRegisterKey()
	fn, _ := slicefunc.Of(zzAdd64)
	c := makeCombiningFrame(zzCombTyp, fn, n, 1)
	ks, vs := make([]zzKey, n+1), make([]int64, n+1)
	for s := 0; s < n; s++ {
		ks[s], vs[s] = zzKey(zz.AnyInt64("slotKey")), zz.AnyInt64("slotVal")
		c.hits[s] = zz.AnyInt("hits")
		zz.Assume(c.hits[s] < 1<<62) // fewer than 2^62 hits per slot (excludes counter overflow)
	}
	c.data = frame.Slices(ks, vs)
	c.scratch = c.data.Slice(n, n+1)
	c.len = zz.AnyInt("len")
	return c, ks, vs
}

// zzH_C09_step4: from any capacity-4 table satisfying the invariant, combining
// one more row preserves the invariant and updates the abstract key->value map
// correctly, including the growth to capacity 8 and its rehash.
func zzH_C09_step4() { zzStepHarness(4) }
func zzH_C09_step8() { zzStepHarness(8) }

func zzStepHarness(n int) {
	c, ks, vs := zzArbitraryTable(n)
	zz.Assume(zzTableInv(c, ks))
	// snapshot of the abstract map
	oldK, oldV := append([]zzKey(nil), ks[:n]...), append([]int64(nil), vs[:n]...)
	oldOcc := make([]bool, n)
	for s := 0; s < n; s++ {
		oldOcc[s] = c.hits[s] != 0
	}
	oldLen := c.len
	k, v := zzKey(zz.AnyInt64("newKey")), zz.AnyInt64("newVal")
	ks[n], vs[n] = k, v
	present := false
	var oldVal int64
	for s := 0; s < n; s++ {
		here := zz.And(oldOcc[s], oldK[s] == k)
		present = zz.Or(present, here)
		oldVal += zz.IteInt64(here, oldV[s], 0)
	}
	c.combine(1)
	nk := c.data.Interface(0).([]zzKey)
	nv := c.data.Interface(1).([]int64)
	if c.cap == n {
		zz.Reach("no growth")
	} else {
		zz.Reach("grew and rehashed")
		zz.Assert(c.cap == 2*n, "growth doubles the capacity")
	}
	zz.Assert(zzTableInv(c, nk), "the representation invariant is preserved")
	zz.Assert(c.len == oldLen+zz.IteInt(present, 0, 1), "Len grows by one exactly for a new key")
	// the new key maps to the folded value, exactly once
	cntNew := 0
	for s := 0; s < c.cap; s++ {
		here := zz.And(c.hits[s] != 0, nk[s] == k)
		cntNew += zz.IteInt(here, 1, 0)
		zz.Assert(zz.Implies(here, nv[s] == oldVal+v), "the fed key holds the fold of its old value and the new value")
	}
	zz.Assert(cntNew == 1, "the fed key occupies exactly one slot")
	// every other old entry is still there with its value, and nothing else
	for o := 0; o < n; o++ {
		cnt := 0
		for s := 0; s < c.cap; s++ {
			cnt += zz.IteInt(zz.And(c.hits[s] != 0, zz.And(nk[s] == oldK[o], nv[s] == oldV[o])), 1, 0)
		}
		zz.Assert(zz.Implies(zz.And(oldOcc[o], oldK[o] != k), cnt == 1), "every other key keeps its value")
	}
	if c.cap == n {
		for s := 0; s < n; s++ {
			zz.Assert(zz.Implies(zz.Not(oldOcc[s]), zz.Or(c.hits[s] == 0, nk[s] == k)), "no other slot becomes occupied")
		}
	}
}

// zzH_C09_compact4: Compact on an arbitrary valid table returns exactly the
// occupied rows and empties the table.
func zzH_C09_compact4() {
	const n = 4
	c, ks, vs := zzArbitraryTable(n)
	zz.Assume(zzTableInv(c, ks))
	oldK, oldV := append([]zzKey(nil), ks[:n]...), append([]int64(nil), vs[:n]...)
	oldOcc := make([]bool, n)
	for s := 0; s < n; s++ {
		oldOcc[s] = c.hits[s] != 0
	}
	oldLen := c.len
	f := c.Compact()
	zz.Assert(f.Len() == oldLen, "Compact returns Len rows")
	gk, gv := f.Interface(0).([]zzKey), f.Interface(1).([]int64)
	for o := 0; o < n; o++ {
		cnt := 0
		for i := range gk {
			cnt += zz.IteInt(zz.And(gk[i] == oldK[o], gv[i] == oldV[o]), 1, 0)
		}
		zz.Assert(zz.Implies(oldOcc[o], cnt == 1), "every occupied slot's row is returned exactly once")
	}
	zz.Assert(c.len == 0, "the table is empty after Compact")
	for s := 0; s < n; s++ {
		zz.Assert(c.hits[s] == 0, "no slot stays occupied after Compact")
	}
	if len(gk) >= 2 {
		zz.Reach("compacted 2 rows")
	}
}

// zzH_C09_step4x2 / step2x2: a CHUNK of two rows combined into an arbitrary valid
// capacity-4 (capacity-2) table that is at its load threshold, the first row carrying a new
// key: the table grows (and rehashes) after the first row while the second row
// of the same chunk is still waiting in the scratch space. The invariant and
// the abstract key->value map must come out right for both rows.
func zzH_C09_step4x2() { zzStep2Harness(4, true) }

// capacity 2 -> 4 (quick), with and without growth
func zzH_C09_step2x2() { zzStep2Harness(2, false) }

func zzStep2Harness(n int, forceGrowth bool) {
	zzRegisterKey()
	fn, _ := slicefunc.Of(zzAdd64)
	c := makeCombiningFrame(zzCombTyp, fn, n, 2)
	ks, vs := make([]zzKey, n+2), make([]int64, n+2)
	for s := 0; s < n; s++ {
		ks[s], vs[s] = zzKey(zz.AnyInt64("slotKey")), zz.AnyInt64("slotVal")
		c.hits[s] = zz.AnyInt("hits")
		zz.Assume(c.hits[s] < 1<<62)
	}
	c.data = frame.Slices(ks, vs)
	c.scratch = c.data.Slice(n, n+2)
	c.len = zz.AnyInt("len")
	zz.Assume(zzTableInv(c, ks))
	oldK, oldV := append([]zzKey(nil), ks[:n]...), append([]int64(nil), vs[:n]...)
	oldOcc := make([]bool, n)
	for s := 0; s < n; s++ {
		oldOcc[s] = c.hits[s] != 0
	}
	oldLen := c.len
	k1, v1 := zzKey(zz.AnyInt64("newKey")), zz.AnyInt64("newVal")
	k2, v2 := zzKey(zz.AnyInt64("newKey")), zz.AnyInt64("newVal")
	ks[n], vs[n], ks[n+1], vs[n+1] = k1, v1, k2, v2
	present1, present2 := false, false
	for s := 0; s < n; s++ {
		present1 = zz.Or(present1, zz.And(oldOcc[s], oldK[s] == k1))
		present2 = zz.Or(present2, zz.And(oldOcc[s], oldK[s] == k2))
	}
	if forceGrowth {
		zz.Assume(zz.And(oldLen == c.threshold, zz.Not(present1)))
	}
	// expected value of key x after both rows
	expect := func(x zzKey) int64 {
		var sum int64
		for s := 0; s < n; s++ {
			sum += zz.IteInt64(zz.And(oldOcc[s], oldK[s] == x), oldV[s], 0)
		}
		sum += zz.IteInt64(k1 == x, v1, 0)
		sum += zz.IteInt64(k2 == x, v2, 0)
		return sum
	}
	c.combine(2)
	nk := c.data.Interface(0).([]zzKey)
	nv := c.data.Interface(1).([]int64)
	if c.cap == n {
		zz.Reach("no growth")
	} else {
		zz.Reach("grew in mid-chunk")
	}
	zz.Assert(zzTableInv(c, nk), "the representation invariant is preserved over a two-row chunk")
	newKeys := zz.IteInt(present1, 0, 1) + zz.IteInt(zz.Or(present2, k2 == k1), 0, 1)
	zz.Assert(c.len == oldLen+newKeys, "Len grows by the number of new distinct keys in the chunk")
	for _, x := range []zzKey{k1, k2} {
		cnt := 0
		for s := 0; s < c.cap; s++ {
			here := zz.And(c.hits[s] != 0, nk[s] == x)
			cnt += zz.IteInt(here, 1, 0)
			zz.Assert(zz.Implies(here, nv[s] == expect(x)), "a fed key holds the fold of its old value and the chunk's values")
		}
		zz.Assert(cnt == 1, "a fed key occupies exactly one slot")
	}
	for o := 0; o < n; o++ {
		cnt := 0
		for s := 0; s < c.cap; s++ {
			cnt += zz.IteInt(zz.And(c.hits[s] != 0, zz.And(nk[s] == oldK[o], nv[s] == expect(oldK[o]))), 1, 0)
		}
		zz.Assert(zz.Implies(oldOcc[o], cnt == 1), "every old key is present once with its folded value")
	}
}
