//go:build verif

package frame

import (
	"strings"

	zz "github.com/grailbio/bigslice/internal/zzverif"
)

// zzH_C05_crossProcess: the hash that decides a row's shard is a function of
// the key value and the seed alone - the same in every OS process. The key is
// hashed, then a fresh process is started (package state reset, initialisers
// re-run, every per-process random source re-drawn), and the same key is
// hashed again: the results must agree. Key kinds: short and long strings,
// every integer width, floats, and a two-column prefix.
func zzH_C05_crossProcess() {
	seed := zz.AnyUint32("seed")
	kind := zz.AnyIntIn("keyKind", 0, 7)
	var mk func() Frame
	switch kind {
	case 0:
		k := zz.AnyStringAtom("key", 4)
		mk = func() Frame { return Slices([]string{k}) }
		zz.Reach("short string key")
	case 1:
		k := strings.Repeat("k", 40) + zz.AnyStringAtom("key", 4)
		mk = func() Frame { return Slices([]string{k}) }
		zz.Reach("long string key (> 32 bytes)")
	case 2:
		k := zz.AnyInt64("key")
		mk = func() Frame { return Slices([]int64{k}) }
	case 3:
		k := zz.AnyInt("key")
		mk = func() Frame { return Slices([]int{k}) }
	case 4:
		k := zz.AnyUint32("key")
		mk = func() Frame { return Slices([]uint32{k}) }
	case 5:
		k := zz.AnyUint8("key")
		mk = func() Frame { return Slices([]uint8{k}) }
	case 6:
		k := zz.AnyFloat64("key")
		zz.Assume(k == k) // NaN is not equal to itself, so it is no "equal key"; its bit pattern is not modelled
		mk = func() Frame { return Slices([]float64{k}) }
	case 7:
		k := strings.Repeat("q", 33) + zz.AnyStringAtom("key", 4)
		k2 := zz.AnyInt64("key2")
		mk = func() Frame { return Slices([]string{k}, []int64{k2}).Prefixed(2) }
		zz.Reach("two-column key")
	}
	h1 := mk().HashWithSeed(0, seed)
	zz.NewProcess()
	h2 := mk().HashWithSeed(0, seed)
	zz.Assert(h1 == h2, "the hash of a key (hence its shard) is the same in every process")
}
