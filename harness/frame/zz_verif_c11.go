//go:build verif

package frame

import (
	"sort"

	zz "github.com/grailbio/bigslice/internal/zzverif"
)

// A backing store of N rows x 2 columns (int64 key, int32 value) with every
// cell symbolic, and a plain slice-of-rows model of it.
type zzRow struct {
	k int64
	v int32
}

type zzStore struct {
	keys []int64
	vals []int32
	rows []zzRow // the model: a copy taken at construction
	f    Frame
}

func zzNewStore(n int, tag string) *zzStore {
	s := &zzStore{keys: make([]int64, n), vals: make([]int32, n), rows: make([]zzRow, n)}
	for i := 0; i < n; i++ {
		s.keys[i] = zz.AnyInt64(tag + "_key")
		s.vals[i] = zz.AnyInt32(tag + "_val")
		s.rows[i] = zzRow{s.keys[i], s.vals[i]}
	}
	s.f = Slices(s.keys, s.vals)
	return s
}

// same asserts that the backing store equals the model, row by row.
func (s *zzStore) same(label string) {
	ok := true
	for i := range s.rows {
		ok = zz.And(ok, zz.And(s.keys[i] == s.rows[i].k, s.vals[i] == s.rows[i].v))
	}
	zz.Assert(ok, label)
}

// zzView picks an arbitrary view [a,b) of the store.
func zzView(s *zzStore, tag string, minLen int) (Frame, int, int) {
	n := len(s.rows)
	a := zz.AnyIntIn(tag+"_a", 0, n-minLen)
	b := zz.AnyIntIn(tag+"_b", a+minLen, n)
	v := s.f.Slice(a, b)
	if a > 0 {
		zz.Reach("view with offset > 0")
	}
	return v, a, b
}

const zzN = 5

// zzH_C11_swap: Swap on a view swaps exactly the two rows of the view.
func zzH_C11_swap() {
	s := zzNewStore(zzN, "s")
	v, a, b := zzView(s, "v", 1)
	i := zz.AnyIntIn("i", 0, b-a-1)
	j := zz.AnyIntIn("j", 0, b-a-1)
	v.Swap(i, j)
	s.rows[a+i], s.rows[a+j] = s.rows[a+j], s.rows[a+i]
	s.same("Swap(i,j) on a view swaps rows i and j of the view and nothing else")
}

// zzH_C11_lessHash: Less and Hash of a row do not depend on where it is stored.
func zzH_C11_lessHash() {
	s := zzNewStore(zzN, "s")
	v, a, b := zzView(s, "v", 1)
	i := zz.AnyIntIn("i", 0, b-a-1)
	j := zz.AnyIntIn("j", 0, b-a-1)
	zz.Assert(zz.Iff(v.Less(i, j), s.rows[a+i].k < s.rows[a+j].k), "Less(i,j) on a view compares the view's rows i and j")
	// the same rows copied to an independent frame at other positions
	c := Slices([]int64{0, s.rows[a+j].k, s.rows[a+i].k}, []int32{0, 0, 0})
	zz.Assert(zz.Iff(v.Less(i, j), c.Less(2, 1)), "Less does not depend on the position of the rows")
	zz.Assert(v.Hash(i) == c.Hash(2), "Hash of a row does not depend on frame, offset or position")
	zz.Assert(v.Hash(i) == s.f.Hash(a+i), "Hash on a view addresses the view's row")
	// two-column prefix
	v2 := v.Prefixed(2)
	c2 := Slices([]int64{s.rows[a+i].k}, []int32{s.rows[a+i].v}).Prefixed(2)
	zz.Assert(v2.Hash(i) == c2.Hash(0), "Hash over a 2-column prefix does not depend on position")
	lt := zz.Or(s.rows[a+i].k < s.rows[a+j].k, zz.And(s.rows[a+i].k == s.rows[a+j].k, s.rows[a+i].v < s.rows[a+j].v))
	zz.Assert(zz.Iff(v2.Less(i, j), lt), "Less over a 2-column prefix is lexicographic on the view's rows")
	s.same("Less/Hash/Prefixed do not modify the store")
}

// zzH_C11_copy: Copy between views (of different or the same store,
// overlapping or not) copies min(len) rows and touches nothing else.
func zzH_C11_copy() {
	s := zzNewStore(zzN, "s")
	t := zzNewStore(4, "t")
	dst, da, db := zzView(s, "dst", 0)
	var src Frame
	var sa, sb int
	srcRows := t.rows
	sameStore := zz.AnyBool("sameStore")
	if sameStore {
		zz.Reach("copy within one store")
		src, sa, sb = zzView(s, "src", 0)
		srcRows = append([]zzRow(nil), s.rows...)
	} else {
		src, sa, sb = zzView(t, "src", 0)
	}
	n := Copy(dst, src)
	want := db - da
	if sb-sa < want {
		want = sb - sa
	}
	zz.Assert(n == want, "Copy returns min(len(dst), len(src))")
	for k := 0; k < want; k++ {
		s.rows[da+k] = srcRows[sa+k]
	}
	if sameStore && sa < da && da < sb {
		zz.Reach("overlapping copy")
	}
	s.same("Copy writes exactly dst[0:n) with src[0:n)")
	if !sameStore {
		t.same("Copy leaves the source unchanged")
	}
}

// zzH_C11_zero: Zero on a view zeroes exactly the view's rows.
func zzH_C11_zero() {
	s := zzNewStore(zzN, "s")
	v, a, b := zzView(s, "v", 0)
	v.Zero()
	for k := a; k < b; k++ {
		s.rows[k] = zzRow{}
	}
	s.same("Zero on a view zeroes the view's rows and nothing else")
}

// zzH_C11_index: Index/Value/Interface/SliceHeader-free accessors address the
// view's rows.
func zzH_C11_index() {
	s := zzNewStore(zzN, "s")
	v, a, b := zzView(s, "v", 1)
	i := zz.AnyIntIn("i", 0, b-a-1)
	zz.Assert(v.Index(0, i).Int() == s.rows[a+i].k, "Index(col,i) is row i of the view")
	zz.Assert(v.Index(1, i).Int() == int64(s.rows[a+i].v), "Index(col,i) is row i of the view (second column)")
	col := v.Interface(0).([]int64)
	zz.Assert(len(col) == b-a, "Interface(col) has the view's length")
	zz.Assert(col[i] == s.rows[a+i].k, "Interface(col)[i] is row i of the view")
	zz.Assert(v.Value(1).Len() == b-a, "Value(col) has the view's length")
	p := (*int64)(v.UnsafeIndexPointer(0, i))
	zz.Assert(*p == s.rows[a+i].k, "UnsafeIndexPointer addresses row i of the view")
	zz.Assert(v.Len() == b-a && v.Cap() == zzN-a, "view length and capacity")
	s.same("accessors do not modify the store")
}

// zzH_C11_grow: Grow/Ensure/AppendFrame on a view preserve its rows, give the
// documented length, zero the extension when reallocating, and never touch
// rows of the store outside what they may legally write.
func zzH_C11_grow() {
	s := zzNewStore(zzN, "s")
	v, a, b := zzView(s, "v", 0)
	switch zz.AnyIntIn("op", 0, 2) {
	case 0:
		n := zz.AnyIntIn("grow", 0, 3)
		g := v.Grow(n)
		zz.Assert(g.Len() == b-a+n, "Grow(n) has length len+n")
		for k := 0; k < b-a; k++ {
			zz.Assert(zz.And(g.Index(0, k).Int() == s.rows[a+k].k, g.Index(1, k).Int() == int64(s.rows[a+k].v)), "Grow preserves the view's rows")
		}
		if b-a+n > zzN-a {
			zz.Reach("reallocated")
			for k := b - a; k < b-a+n; k++ {
				zz.Assert(g.Index(0, k).Int() == 0, "a reallocating Grow zeroes the extension")
			}
			// no aliasing after reallocation
			if g.Len() > 0 {
				g.Zero()
			}
		}
		s.same("Grow does not modify the store")
	case 1:
		n := zz.AnyIntIn("ensure", 0, 7)
		g := v.Ensure(n)
		zz.Assert(g.Len() == n, "Ensure(n) has length n")
		m := n
		if b-a < m {
			m = b - a
		}
		for k := 0; k < m; k++ {
			zz.Assert(g.Index(0, k).Int() == s.rows[a+k].k, "Ensure preserves the view's rows")
		}
		s.same("Ensure does not modify the store")
	case 2:
		t := zzNewStore(3, "t")
		src, sa, sb := zzView(t, "src", 0)
		g := AppendFrame(v, src)
		zz.Assert(g.Len() == b-a+sb-sa, "AppendFrame has length len(dst)+len(src)")
		for k := 0; k < b-a; k++ {
			zz.Assert(g.Index(0, k).Int() == s.rows[a+k].k, "AppendFrame preserves dst's rows")
		}
		for k := 0; k < sb-sa; k++ {
			zz.Assert(zz.And(g.Index(0, b-a+k).Int() == t.rows[sa+k].k, g.Index(1, b-a+k).Int() == int64(t.rows[sa+k].v)), "AppendFrame appends src's rows")
		}
		if b-a+sb-sa <= zzN-a {
			zz.Reach("append in place")
			// in place: rows [b, b+len(src)) of the store are overwritten
			for k := 0; k < sb-sa; k++ {
				s.rows[b+k] = t.rows[sa+k]
			}
		}
		s.same("AppendFrame writes only the rows between len and cap of dst")
		t.same("AppendFrame leaves src unchanged")
	}
}

// zzH_C11_sort: sorting a view yields a key-ordered permutation of the view's
// rows and leaves the rest of the store unchanged.
func zzH_C11_sort() {
	s := zzNewStore(4, "s")
	v, a, b := zzView(s, "v", 0)
	sort.Sort(zzSorter{v})
	for k := a + 1; k < b; k++ {
		zz.Assert(s.keys[k-1] <= s.keys[k], "sorted view is in non-decreasing key order")
	}
	for k := 0; k < len(s.rows); k++ {
		if k < a || k >= b {
			zz.Assert(zz.And(s.keys[k] == s.rows[k].k, s.vals[k] == s.rows[k].v), "rows outside the sorted view are unchanged")
		}
	}
	// permutation: every original row occurs as often after as before
	for k := a; k < b; k++ {
		before, after := 0, 0
		for m := a; m < b; m++ {
			before += zz.IteInt(zz.And(s.rows[m].k == s.rows[k].k, s.rows[m].v == s.rows[k].v), 1, 0)
			after += zz.IteInt(zz.And(s.keys[m] == s.rows[k].k, s.vals[m] == s.rows[k].v), 1, 0)
		}
		zz.Assert(before == after, "sorting permutes the view's rows")
	}
	if b-a >= 3 {
		zz.Reach("sorted 3+ rows")
	}
}

type zzSorter struct{ Frame }

func (s zzSorter) Len() int { return s.Frame.Len() }

// --- pointer-carrying column type (string): goes through the typedmemmove /
// typedslicecopy paths instead of the word-sized assign fast path ---

type zzSStore struct {
	names []string
	vals  []int64
	rows  []zzSRow
	f     Frame
}

type zzSRow struct {
	s string
	v int64
}

func zzNewSStore(n int, tag string) *zzSStore {
	st := &zzSStore{names: make([]string, n), vals: make([]int64, n), rows: make([]zzSRow, n)}
	for i := 0; i < n; i++ {
		st.names[i] = zz.AnyStringAtom(tag+"_name", 4)
		st.vals[i] = zz.AnyInt64(tag + "_val")
		st.rows[i] = zzSRow{st.names[i], st.vals[i]}
	}
	st.f = Slices(st.names, st.vals)
	return st
}

func (st *zzSStore) same(label string) {
	ok := true
	for i := range st.rows {
		ok = zz.And(ok, zz.And(st.names[i] == st.rows[i].s, st.vals[i] == st.rows[i].v))
	}
	zz.Assert(ok, label)
}

// zzH_C11_strings: Copy (single-row fast path and general path), Swap, Zero and
// AppendFrame on views of a frame with a string key column.
func zzH_C11_strings() {
	const n = 4
	st := zzNewSStore(n, "s")
	a := zz.AnyIntIn("a", 0, n)
	b := zz.AnyIntIn("b", a, n)
	v := st.f.Slice(a, b)
	if a > 0 {
		zz.Reach("view with offset > 0")
	}
	switch zz.AnyIntIn("op", 0, 3) {
	case 0: // copy from another store
		src := zzNewSStore(3, "t")
		sa := zz.AnyIntIn("sa", 0, 3)
		sb := zz.AnyIntIn("sb", sa, 3)
		cnt := Copy(v, src.f.Slice(sa, sb))
		want := b - a
		if sb-sa < want {
			want = sb - sa
		}
		zz.Assert(cnt == want, "Copy returns min(len(dst), len(src))")
		for k := 0; k < want; k++ {
			st.rows[a+k] = src.rows[sa+k]
		}
		if want == 1 && b-a == 1 && sb-sa == 1 {
			zz.Reach("single-row fast path")
		}
		st.same("Copy of string rows writes exactly dst[0:n)")
		src.same("Copy leaves the source unchanged")
	case 1: // swap
		if b-a == 0 {
			return
		}
		i := zz.AnyIntIn("i", 0, b-a-1)
		j := zz.AnyIntIn("j", 0, b-a-1)
		v.Swap(i, j)
		st.rows[a+i], st.rows[a+j] = st.rows[a+j], st.rows[a+i]
		st.same("Swap on a view with a string column swaps exactly the two rows")
	case 2: // zero
		v.Zero()
		for k := a; k < b; k++ {
			st.rows[k] = zzSRow{}
		}
		st.same("Zero on a view with a string column zeroes exactly the view's rows")
	case 3: // less / hash are position independent
		if b-a == 0 {
			return
		}
		i := zz.AnyIntIn("i", 0, b-a-1)
		c := Slices([]string{"x", st.rows[a+i].s}, []int64{0, 0})
		zz.Assert(v.Hash(i) == c.Hash(1), "Hash of a string key does not depend on frame, offset or position")
		st.same("Hash does not modify the store")
	}
}
