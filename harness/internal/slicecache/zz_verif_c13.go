//go:build verif

package slicecache

import (
	"context"
	"errors"
	"io"

	"github.com/grailbio/base/file"
	"github.com/grailbio/bigslice/frame"
	zz "github.com/grailbio/bigslice/internal/zzverif"
	"github.com/grailbio/bigslice/sliceio"
)

// zzH_C13_requireAll: Cache is all-or-nothing. For every pattern of cached
// shards (up to 4 shards) RequireAllCached leaves every shard cached iff every
// shard was cached, and otherwise no shard; an uncached shard's CacheReader is
// an error reader; a nil cache is safe and empty.
func zzH_C13_requireAll() {
	n := zz.AnyIntIn("nshard", 1, 4)
	c := &FileShardCache{prefix: "zz", numShards: n, shardIsCached: make([]bool, n)}
	all := true
	for i := 0; i < n; i++ {
		b := zz.AnyBool("cached")
		c.shardIsCached[i] = b
		all = zz.And(all, b)
	}
	c.RequireAllCached()
	for i := 0; i < n; i++ {
		zz.Assert(zz.Iff(c.IsCached(i), all), "after RequireAllCached a shard is cached iff every shard was cached")
	}
	if c.IsCached(0) {
		zz.Reach("all cached")
	} else {
		zz.Reach("not all cached")
		r := c.CacheReader(0)
		nr, err := r.Read(context.Background(), frame.Empty)
		zz.Assert(nr == 0 && err != nil, "reading an uncached shard from the cache is an error")
	}
	var nilc *FileShardCache
	nilc.RequireAllCached()
	zz.Assert(!nilc.IsCached(0), "nil cache has nothing cached")
}

// ---------------------------------------------------------------------
// Write-through reader over a model of file / zstd / encoder with an
// independent failure variable at every operation.

type zzWT struct {
	maxFail   int
	fails     int
	committed bool    // file.Close returned nil
	discarded int     // number of Discard calls
	closed    int     // number of Close calls
	fileRows  []int64 // keys that reached the file (flushed by a successful zstd Close)
	zbuf      []int64 // keys accepted by the encoder/zstd writer, not yet flushed
	flushed   bool
	failed    []string
}

var zzwt *zzWT

func (w *zzWT) fail(op string) bool {
	if w.fails < w.maxFail && zz.AnyBool("fail_"+op) {
		w.fails++
		w.failed = append(w.failed, op)
		return true
	}
	return false
}

type zzWTFile struct{ w *zzWT }

func (f *zzWTFile) String() string { return "zzfile" }
func (f *zzWTFile) Name() string   { return "zzfile" }
func (f *zzWTFile) Stat(ctx context.Context) (file.Info, error) {
	return nil, errors.New("zz: not supported")
}
func (f *zzWTFile) Reader(ctx context.Context) io.ReadSeeker { return nil }
func (f *zzWTFile) Writer(ctx context.Context) io.Writer     { return zzWTRaw{f.w} }
func (f *zzWTFile) Discard(ctx context.Context) {
	zz.Assert(f.w.closed == 0, "file contract: Discard is not called after Close")
	f.w.discarded++
}
func (f *zzWTFile) Close(ctx context.Context) error {
	zz.Assert(f.w.closed == 0 && f.w.discarded == 0, "file contract: exactly one of Close or Discard")
	f.w.closed++
	if f.w.fail("fileClose") {
		return zzErrIO
	}
	f.w.committed = true
	return nil
}

type zzWTRaw struct{ w *zzWT }

func (zzWTRaw) Write(p []byte) (int, error) { return len(p), nil }

type zzWTZstd struct{ w *zzWT }

func (z *zzWTZstd) Write(p []byte) (int, error) { return len(p), nil }
func (z *zzWTZstd) Close() error {
	if z.w.fail("zstdClose") {
		// the stream was not terminated: what is in the file is incomplete
		return zzErrIO
	}
	z.w.fileRows = append(z.w.fileRows, z.w.zbuf...)
	z.w.flushed = true
	return nil
}

var zzErrIO = errors.New("zz: injected I/O failure")

func zzStubCreate(ctx context.Context, path string, opts ...file.Opts) (file.File, error) {
	if zzwt.fail("create") {
		return nil, zzErrIO
	}
	return &zzWTFile{zzwt}, nil
}

func zzStubZstdWriter(w io.Writer) (io.WriteCloser, error) {
	if zzwt.fail("zstdNew") {
		return nil, zzErrIO
	}
	return &zzWTZstd{zzwt}, nil
}

func zzStubNewEncodingWriter(w io.Writer) *sliceio.Encoder { return new(sliceio.Encoder) }

func zzStubEncoderWrite(e *sliceio.Encoder, ctx context.Context, f frame.Frame) error {
	if zzwt.fail("encode") {
		return zzErrIO
	}
	for i := 0; i < f.Len(); i++ {
		zzwt.zbuf = append(zzwt.zbuf, f.Index(0, i).Int())
	}
	return nil
}

// zzH_C13_writethrough: the cache file is committed only after a clean end of
// stream with every operation on the way successful, and then holds every row
// of the shard in order; any upstream error, write error, close error or early
// abandonment leaves nothing committed; the rows passed to the caller are the
// upstream rows regardless.
func zzH_C13_writethrough() { zzWritethrough(3, 4, 1) }
func zzH_C13_writethrough_deep() { zzWritethrough(4, 5, 2) }

func zzWritethrough(maxRows, calls, maxFail int) {
	zzwt = &zzWT{maxFail: maxFail}
	n := zz.AnyIntIn("rows", 0, maxRows)
	m := sliceio.ZZNewModel("up", n)
	m.MaxEmpty = 1
	switch zz.AnyIntIn("upstreamFailure", 0, 2) {
	case 1:
		m.FailAt = zz.AnyIntIn("failAt", 0, n)
	case 2: // the computation panics (user code)
		m.PanicAt = zz.AnyIntIn("panicAt", 0, n) + 1
		m.PanicValue = "zz: user code panicked"
	}
	r := newWritethroughReader(m, "zzpath")
	// the consumer may stop early (Head): it makes between 0 and `calls` reads
	reads := zz.AnyIntIn("consumerReads", 0, calls)
	var d *sliceio.ZZDrive
	panicked := false
	func() {
		defer func() {
			if e := recover(); e != nil {
				if _, stop := e.(zz.Stop); stop {
					panic(e)
				}
				panicked = true
			}
		}()
		d = sliceio.ZZDriveReader(r, reads, 1, 2, "dst")
	}()
	if panicked {
		zz.Reach("computation panicked")
		zz.Assert(m.Panicked, "only the injected panic propagates")
		zz.Assert(!zzwt.committed, "a computation that panics leaves no committed file")
		return
	}
	// pass-through: rows delivered to the caller are the upstream rows
	ok := len(d.Keys) <= n
	for i := range d.Keys {
		if i < n {
			ok = zz.And(ok, zz.And(d.Keys[i] == m.Keys[i], d.Vals[i] == m.Vals[i]))
		}
	}
	zz.Assert(ok, "the rows passed to the caller are the upstream rows")
	w := zzwt
	if w.committed {
		zz.Reach("cache file committed")
		zz.Assert(d.Err == sliceio.EOF, "a file is committed only after a clean end of stream")
		zz.Assert(w.flushed, "a file is committed only if the compressed stream was terminated successfully")
		zz.Assert(len(w.failed) == 0 || (len(w.failed) == 1 && false), "a file is committed only if every operation on the way succeeded")
		zz.Assert(len(w.fileRows) == n, "a committed file holds every row of the shard")
		all := true
		for i := range w.fileRows {
			if i < n {
				all = zz.And(all, w.fileRows[i] == m.Keys[i])
			}
		}
		zz.Assert(all, "a committed file holds the shard's rows in order")
	} else {
		zz.Reach("nothing committed")
	}
	if d.Err != nil && d.Err != sliceio.EOF {
		zz.Reach("error surfaced")
		zz.Assert(!w.committed, "an error leaves no committed file")
	}
	if m.Failed() {
		zz.Assert(!w.committed, "an upstream error leaves no committed file")
	}
	if d.Err == sliceio.EOF && len(w.failed) == 0 && !m.Failed() {
		zz.Reach("shard read to a clean end with no failure")
		zz.Assert(w.committed, "a shard read to a clean end of stream with no failure leaves a committed cache file - also an empty shard (otherwise later runs recompute it)")
	}
	if d.Err == nil {
		zz.Reach("consumer stopped early")
		zz.Assert(!w.committed, "a partially consumed shard leaves no committed file")
	}
}
