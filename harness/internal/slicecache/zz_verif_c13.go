//go:build verif

package slicecache

import (
	"context"

	"github.com/grailbio/bigslice/frame"
	zz "github.com/grailbio/bigslice/internal/zzverif"
)

// zzH_C13_requireAll: Cache is all-or-nothing. For every pattern of cached
// shards (up to 4 shards) RequireAllCached leaves every shard cached iff every
// shard was cached, and otherwise no shard; an uncached shard's CacheReader is
// an error reader; a nil cache is safe and empty.
func zzH_C13_requireAll() {
	n := zz.AnyIntIn("nshard", 1, 4)
	c := &FileShardCache{prefix: "zz", numShards: n, shardIsCached: make([]bool, n)}
	all := true
	for i := 0; i < n; i++ {
		b := zz.AnyBool("cached")
		c.shardIsCached[i] = b
		all = zz.And(all, b)
	}
	c.RequireAllCached()
	for i := 0; i < n; i++ {
		zz.Assert(zz.Iff(c.IsCached(i), all), "after RequireAllCached a shard is cached iff every shard was cached")
	}
	if c.IsCached(0) {
		zz.Reach("all cached")
	} else {
		zz.Reach("not all cached")
		r := c.CacheReader(0)
		nr, err := r.Read(context.Background(), frame.Empty)
		zz.Assert(nr == 0 && err != nil, "reading an uncached shard from the cache is an error")
	}
	var nilc *FileShardCache
	nilc.RequireAllCached()
	zz.Assert(!nilc.IsCached(0), "nil cache has nothing cached")
}
