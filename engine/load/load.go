// Package load builds the SSA program for the repository under test from
// its *current* working tree, with /verif's shims and harnesses injected by
// build overlay. Nothing is written into the repository.
package load

import (
	"encoding/json"
	"fmt"
	"os"
	"path/filepath"
	"regexp"
	"strings"

	"golang.org/x/tools/go/packages"
	"golang.org/x/tools/go/ssa"
	"golang.org/x/tools/go/ssa/ssautil"
)

// Env describes where things are.
type Env struct {
	Repo     string // /repo
	Verif    string // /verif
	BuildDir string // scratch (under /verif/build)
	Module   string // module path of the repository
	Overlay  map[string]string // virtual path -> real file
	ModFile  string
}

const baseMod = "github.com/grailbio/base@v0.0.9"

func gomodcache() string {
	if v := os.Getenv("GOMODCACHE"); v != "" {
		return v
	}
	gp := os.Getenv("GOPATH")
	if gp == "" {
		home, _ := os.UserHomeDir()
		gp = filepath.Join(home, "go")
	}
	return filepath.Join(gp, "pkg", "mod")
}

// Prepare regenerates the modfile copy and the overlay map.
func Prepare(repo, verif, buildDir string) (*Env, error) {
	e := &Env{Repo: repo, Verif: verif, BuildDir: buildDir, Overlay: map[string]string{}}
	if err := os.MkdirAll(buildDir, 0o755); err != nil {
		return nil, err
	}
	gomod, err := os.ReadFile(filepath.Join(repo, "go.mod"))
	if err != nil {
		return nil, err
	}
	m := regexp.MustCompile(`(?m)^module\s+(\S+)`).FindSubmatch(gomod)
	if m == nil {
		return nil, fmt.Errorf("no module line in go.mod")
	}
	e.Module = string(m[1])
	re := regexp.MustCompile(`(?m)^go\s+1\.(\d+)(\.\d+)?\s*$`)
	out := re.ReplaceAllFunc(gomod, func(b []byte) []byte {
		sm := re.FindSubmatch(b)
		var minor int
		fmt.Sscanf(string(sm[1]), "%d", &minor)
		if minor < 18 {
			return []byte("go 1.18")
		}
		return b
	})
	e.ModFile = filepath.Join(buildDir, "go.mod")
	if err := os.WriteFile(e.ModFile, out, 0o644); err != nil {
		return nil, err
	}
	if sum, err := os.ReadFile(filepath.Join(repo, "go.sum")); err == nil {
		os.WriteFile(filepath.Join(buildDir, "go.sum"), sum, 0o644)
	}
	// dependency shims
	mc := filepath.Join(gomodcache(), baseMod)
	shimRoot := filepath.Join(verif, "shims", "base")
	filepath.Walk(shimRoot, func(p string, info os.FileInfo, err error) error {
		if err != nil || info.IsDir() || !strings.HasSuffix(p, ".go") {
			return nil
		}
		rel, _ := filepath.Rel(shimRoot, p)
		e.Overlay[filepath.Join(mc, rel)] = p
		return nil
	})
	// exec/config.go needs the generic config API of a newer grailbio/base.
	if _, err := os.Stat(filepath.Join(repo, "exec", "config.go")); err == nil {
		e.Overlay[filepath.Join(repo, "exec", "config.go")] = filepath.Join(verif, "shims", "exec", "config.go")
	}
	// harness support package
	e.Overlay[filepath.Join(repo, "internal", "zzverif", "zzverif.go")] = filepath.Join(verif, "zzverif", "zzverif.go")
	// harness files
	hroot := filepath.Join(verif, "harness")
	filepath.Walk(hroot, func(p string, info os.FileInfo, err error) error {
		if err != nil || info.IsDir() || !strings.HasSuffix(p, ".go") {
			return nil
		}
		rel, _ := filepath.Rel(hroot, p)
		if strings.HasPrefix(rel, "root"+string(filepath.Separator)) {
			rel = strings.TrimPrefix(rel, "root"+string(filepath.Separator))
		}
		e.Overlay[filepath.Join(repo, rel)] = p
		return nil
	})
	return e, nil
}

// WriteOverlayJSON writes the overlay in cmd/go's -overlay format, plus
// extra entries.
func (e *Env) WriteOverlayJSON(path string, extra map[string]string) error {
	repl := map[string]string{}
	for k, v := range e.Overlay {
		repl[k] = v
	}
	for k, v := range extra {
		repl[k] = v
	}
	b, err := json.MarshalIndent(map[string]interface{}{"Replace": repl}, "", " ")
	if err != nil {
		return err
	}
	return os.WriteFile(path, b, 0o644)
}

// GoEnv is the environment for every go invocation.
func (e *Env) GoEnv() []string {
	env := []string{}
	for _, kv := range os.Environ() {
		if strings.HasPrefix(kv, "GOFLAGS=") || strings.HasPrefix(kv, "GODEBUG=") || strings.HasPrefix(kv, "GOPROXY=") ||
			strings.HasPrefix(kv, "GOSUMDB=") || strings.HasPrefix(kv, "GOTOOLCHAIN=") || strings.HasPrefix(kv, "GO111MODULE=") {
			continue
		}
		env = append(env, kv)
	}
	return append(env, "GOFLAGS=-mod=mod", "GODEBUG=goindex=0", "GOPROXY=off", "GOSUMDB=off", "GOTOOLCHAIN=local", "GO111MODULE=on")
}

// Program loads the packages and builds SSA for them and all dependencies.
func (e *Env) Program(patterns []string) (*ssa.Program, []*packages.Package, error) {
	overlay := map[string][]byte{}
	for virt, real := range e.Overlay {
		b, err := os.ReadFile(real)
		if err != nil {
			return nil, nil, err
		}
		overlay[virt] = b
	}
	cfg := &packages.Config{
		Mode:       packages.LoadAllSyntax,
		Dir:        e.Repo,
		Overlay:    overlay,
		BuildFlags: []string{"-modfile=" + e.ModFile, "-tags=verif"},
		Env:        e.GoEnv(),
	}
	pkgs, err := packages.Load(cfg, patterns...)
	if err != nil {
		return nil, nil, err
	}
	var errs []string
	packages.Visit(pkgs, nil, func(p *packages.Package) {
		for _, pe := range p.Errors {
			if len(errs) < 20 {
				errs = append(errs, pe.Error())
			}
		}
	})
	if len(errs) > 0 {
		return nil, pkgs, fmt.Errorf("load errors:\n%s", strings.Join(errs, "\n"))
	}
	prog, _ := ssautil.AllPackages(pkgs, ssa.InstantiateGenerics)
	prog.Build()
	return prog, pkgs, nil
}
