// symgo: bounded symbolic execution of harness functions over go/ssa with an
// SMT solver. See /verif/DESIGN.md.
package main

import (
	"flag"
	"fmt"
	"os"
	"path/filepath"
	"strings"
	"time"

	"verif/engine/interp"
	"verif/engine/load"
)

func main() {
	if len(os.Args) > 1 && os.Args[1] == "check" {
		os.Exit(checkMain(os.Args[2:]))
	}
	repo := flag.String("repo", "/repo", "repository under test")
	verif := flag.String("verif", "/verif", "verification directory")
	pkg := flag.String("pkg", "./exec", "package pattern (relative to repo)")
	harness := flag.String("harness", "", "harness function name(s), comma separated")
	workers := flag.Int("workers", 0, "worker count")
	trace := flag.Bool("trace", false, "trace instructions")
	debug := flag.Bool("debug", false, "debug panics")
	solver := flag.String("solver", "z3", "solver")
	maxDec := flag.Int("maxdec", 0, "decision bound")
	gor := flag.Bool("goroutines", false, "enable the cooperative goroutine scheduler")
	nondet := flag.Bool("sched-nondet", false, "explore scheduling choices")
	preempt := flag.Int("sched-preempt", 0, "preemptions explored per path")
	flag.Parse()
	build := filepath.Join(*verif, "build", fmt.Sprintf("run-%d", os.Getpid()))
	defer os.RemoveAll(build)
	env, err := load.Prepare(*repo, *verif, build)
	if err != nil {
		fmt.Fprintln(os.Stderr, err)
		os.Exit(2)
	}
	t0 := time.Now()
	prog, pkgs, err := env.Program(strings.Split(*pkg, ","))
	if err != nil {
		fmt.Fprintln(os.Stderr, err)
		os.Exit(2)
	}
	fmt.Fprintf(os.Stderr, "loaded in %.1fs\n", time.Since(t0).Seconds())
	rc := 0
	for _, h := range strings.Split(*harness, ",") {
		var found bool
		for _, p := range pkgs {
			sp := prog.Package(p.Types)
			if sp == nil {
				continue
			}
			fn := sp.Func(h)
			if fn == nil {
				continue
			}
			found = true
			cfg := defaultConfig(env.Module)
			cfg.Workers = *workers
			cfg.Trace = *trace
			cfg.DebugPanics = *debug
			cfg.Solver = *solver
			cfg.MaxDecisions = *maxDec
			cfg.Goroutines, cfg.SchedNondet, cfg.SchedPreempt = *gor, *nondet, *preempt
			res := interp.Explore(prog, fn, cfg)
			fmt.Print(res.Summary())
			if len(res.Violations) > 0 {
				rc = 1
			} else if len(res.Unsupported) > 0 || len(res.Budget) > 0 || res.Unknown > 0 {
				if rc == 0 {
					rc = 2
				}
			}
		}
		if !found {
			fmt.Fprintf(os.Stderr, "harness %s not found\n", h)
			rc = 2
		}
	}
	os.Exit(rc)
}

func defaultConfig(module string) *interp.Config {
	return &interp.Config{
		InitPkgs: []string{
			module, module + "/...",
			"io", "errors", "context", "sort", "strconv", "math", "bytes", "strings", "unicode/utf8", "container/heap",
			"github.com/grailbio/base/errors", "github.com/grailbio/base/retry", "github.com/grailbio/base/backgroundcontext",
			"github.com/grailbio/base/data", "golang.org/x/sync/errgroup",
		},
	}
}
