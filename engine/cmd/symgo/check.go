package main

// `symgo check -prop C14 -tier quick`: run every harness registered for a
// property, replay counterexamples natively, apply the known-findings file,
// write evidence, print the verdict.

import (
	"bufio"
	"crypto/sha256"
	"encoding/json"
	"flag"
	"fmt"
	"os"
	"os/exec"
	"path/filepath"
	"regexp"
	"sort"
	"strconv"
	"strings"
	"time"

	"golang.org/x/tools/go/packages"
	"golang.org/x/tools/go/ssa"
	"golang.org/x/tools/go/ssa/ssautil"

	"verif/engine/interp"
	"verif/engine/load"
)

// HarnessSpec registers one harness of a property.
type HarnessSpec struct {
	Name     string            `json:"name"`
	Pkg      string            `json:"pkg"` // "./exec"
	Tiers    []string          `json:"tiers"`
	Labels   []string          `json:"labels"`  // must be reached (vacuity guard)
	Stubs    map[string]string `json:"stubs"`   // callee -> harness function (short name, same package)
	DropGo   []string          `json:"dropgo"`
	NoOps    []string          `json:"noops"`
	MaxDec   int               `json:"maxdec"`
	MaxSteps int               `json:"maxsteps"`
	MaxPaths int               `json:"maxpaths"`
	TimeoutMs int              `json:"timeout_ms"`
	ResidentMs int             `json:"resident_timeout_ms"` // shorter timeout of the resident solver; its unknowns go to the one-shot portfolio
	Replay   string            `json:"replay"` // "native" (default) or "trace"
	Solver   string            `json:"solver"`
	Goroutines   bool          `json:"goroutines"`
	SchedNondet  bool          `json:"sched_nondet"`
	SelectNondet bool          `json:"select_nondet"`
	SchedPreempt int           `json:"sched_preempt"`
	Deadlock     bool          `json:"deadlock_is_violation"`
	What     string            `json:"what"`
	Bounds   map[string]string `json:"bounds"`
	MayBeUnknown int           `json:"-"`
}

// PropSpec is /verif/checks/<id>.json.
type PropSpec struct {
	Property    string        `json:"property"`
	Explanation string        `json:"explanation"`
	Assumptions []string      `json:"assumptions"`
	Outside     []string      `json:"outside_claim"`
	Harnesses   []HarnessSpec `json:"harnesses"`
}

type knownFinding struct {
	kind, prop, harness, label, text string
}

func readKnown(path string) []knownFinding {
	f, err := os.Open(path)
	if err != nil {
		return nil
	}
	defer f.Close()
	var out []knownFinding
	re := regexp.MustCompile(`^(known|fixed):\s+property=(\S+)\s+(?:(\S+)\s+)?harness=(\S+)\s+label="([^"]*)"\s*(.*)$`)
	sc := bufio.NewScanner(f)
	for sc.Scan() {
		line := strings.TrimSpace(sc.Text())
		if line == "" || strings.HasPrefix(line, "#") {
			continue
		}
		m := re.FindStringSubmatch(line)
		if m == nil {
			continue
		}
		out = append(out, knownFinding{kind: m[1], prop: m[2], harness: m[4], label: m[5], text: strings.TrimSpace(m[3] + " " + m[6])})
	}
	return out
}

func inTier(h HarnessSpec, tier string) bool {
	if len(h.Tiers) == 0 {
		return true
	}
	for _, t := range h.Tiers {
		if t == tier {
			return true
		}
	}
	return false
}

type harnessReport struct {
	Name        string            `json:"harness"`
	What        string            `json:"what,omitempty"`
	Bounds      map[string]string `json:"bounds,omitempty"`
	Paths       int               `json:"paths"`
	Killed      int               `json:"paths_infeasible"`
	Obligations int               `json:"obligations"`
	Discharged  int               `json:"discharged"`
	Unknown     int               `json:"unknown"`
	Queries     int               `json:"queries"`
	SolverSec   float64           `json:"solver_s"`
	WallSec     float64           `json:"wall_s"`
	Labels      map[string]int    `json:"labels_reached"`
	Stubs       []string          `json:"stubs"`
	Status      string            `json:"status"`
	Notes       []string          `json:"notes,omitempty"`
}

func checkMain(args []string) int {
	fs := flag.NewFlagSet("check", flag.ExitOnError)
	repo := fs.String("repo", "/repo", "repository under test")
	verif := fs.String("verif", "/verif", "verification directory")
	prop := fs.String("prop", "", "property id")
	tier := fs.String("tier", "", "quick|thorough")
	only := fs.String("only", "", "run only this harness (debugging)")
	workers := fs.Int("workers", 0, "workers")
	debug := fs.Bool("debug", false, "debug")
	noEvidence := fs.Bool("no-evidence", false, "do not write the evidence file")
	fs.Parse(args)
	if *tier == "" {
		*tier = os.Getenv("VERIF_TIER")
	}
	if *tier == "" {
		*tier = "quick"
	}
	seed := 0
	if s := os.Getenv("VERIF_SEED"); s != "" {
		seed, _ = strconv.Atoi(s)
	}
	t0 := time.Now()
	specPath := filepath.Join(*verif, "checks", *prop+".json")
	b, err := os.ReadFile(specPath)
	if err != nil {
		fmt.Fprintln(os.Stderr, "symgo check:", err)
		return 2
	}
	var spec PropSpec
	if err := json.Unmarshal(b, &spec); err != nil {
		fmt.Fprintln(os.Stderr, "symgo check:", specPath, err)
		return 2
	}
	build := filepath.Join(*verif, "build", fmt.Sprintf("check-%s-%d", *prop, os.Getpid()))
	defer os.RemoveAll(build)
	env, err := load.Prepare(*repo, *verif, build)
	if err != nil {
		fmt.Fprintln(os.Stderr, "symgo check:", err)
		return 2
	}
	var hs []HarnessSpec
	pkgSet := map[string]bool{}
	for _, h := range spec.Harnesses {
		if !inTier(h, *tier) {
			continue
		}
		if *only != "" && h.Name != *only {
			continue
		}
		hs = append(hs, h)
		pkgSet[h.Pkg] = true
	}
	var patterns []string
	for p := range pkgSet {
		patterns = append(patterns, p)
	}
	sort.Strings(patterns)
	inconclusive := []string{}
	prog, pkgs, err := env.Program(patterns)
	if err != nil {
		fmt.Println("INCONCLUSIVE: cannot load the repository with the harnesses: " + firstLines(err.Error(), 12))
		writeEvidence(*verif, *prop, *tier, seed, &spec, nil, nil, nil, []string{"load failed: " + firstLines(err.Error(), 6)}, 0, 0, time.Since(t0).Seconds(), *noEvidence)
		return 2
	}
	loadSec := time.Since(t0).Seconds()
	known := readKnown(filepath.Join(*verif, "KNOWN_FINDINGS.txt"))
	var reports []harnessReport
	funcs := map[string]bool{}
	var samples []interface{}
	type confirmed struct {
		v      *interp.Violation
		replay string
		kind   string
	}
	var newViolations []confirmed
	knownSeen := map[string]bool{}
	nontrivial := 0
	totalPaths := 0
	for _, h := range hs {
		fn, sp := findHarness(prog, pkgs, h)
		if fn == nil {
			inconclusive = append(inconclusive, "harness not found: "+h.Name)
			continue
		}
		cfg := defaultConfig(env.Module)
		cfg.Workers = *workers
		cfg.DebugPanics = *debug
		cfg.MaxDecisions = h.MaxDec
		cfg.MaxSteps = h.MaxSteps
		cfg.MaxPaths = h.MaxPaths
		cfg.QueryTimeoutMs = h.TimeoutMs
		cfg.ResidentTimeoutMs = h.ResidentMs
		if cfg.QueryTimeoutMs == 0 {
			if *tier == "thorough" {
				cfg.QueryTimeoutMs = 60000
			} else {
				cfg.QueryTimeoutMs = 20000
			}
		}
		cfg.Solver = h.Solver
		cfg.Goroutines, cfg.SchedNondet, cfg.SchedPreempt, cfg.DeadlockIsViolation = h.Goroutines, h.SchedNondet, h.SchedPreempt, h.Deadlock
		cfg.SelectNondet = h.SelectNondet
		cfg.DropGo = h.DropGo
		cfg.NoOps = h.NoOps
		cfg.Stubs = map[string]string{}
		for k, v := range h.Stubs {
			if !strings.Contains(v, ".") {
				v = sp.Pkg.Path() + "." + v
			}
			cfg.Stubs[k] = v
		}
		res := interp.Explore(prog, fn, cfg)
		fmt.Print(res.Summary())
		rep := harnessReport{Name: h.Name, What: h.What, Bounds: h.Bounds, Paths: res.Paths, Killed: res.PathsKilled, Obligations: res.Obligations,
			Discharged: res.Discharged, Unknown: res.Unknown, Queries: res.Queries, SolverSec: round2(res.SolverSec), WallSec: round2(res.WallSec), Labels: res.Labels, Status: "ok"}
		for s := range res.Stubs {
			rep.Stubs = append(rep.Stubs, s)
		}
		sort.Strings(rep.Stubs)
		for f := range res.Funcs {
			funcs[f] = true
		}
		nontrivial += res.NontrivialPaths
		totalPaths += res.Paths
		for _, s := range res.Samples {
			if len(samples) < 8 {
				samples = append(samples, map[string]string{"harness": h.Name, "discharged_obligation": s})
			}
		}
		for _, u := range res.Unsupported {
			rep.Notes = append(rep.Notes, "unsupported: "+u)
		}
		for _, u := range res.Budget {
			rep.Notes = append(rep.Notes, "budget: "+u)
		}
		for _, u := range res.SolverErrs {
			rep.Notes = append(rep.Notes, "solver: "+u)
		}
		if len(res.Unsupported) > 0 || len(res.Budget) > 0 || res.Unknown > 0 || len(res.SolverErrs) > 0 {
			rep.Status = "inconclusive"
			inconclusive = append(inconclusive, fmt.Sprintf("%s: unsupported=%d budget=%d unknown=%d solver-errors=%d", h.Name, len(res.Unsupported), len(res.Budget), res.Unknown, len(res.SolverErrs)))
		}
		for _, l := range h.Labels {
			if res.Labels[l] == 0 {
				rep.Status = "inconclusive"
				rep.Notes = append(rep.Notes, "label not reached: "+l)
				inconclusive = append(inconclusive, h.Name+": label not reached: "+l)
			}
		}
		if res.Obligations == 0 {
			rep.Status = "inconclusive"
			inconclusive = append(inconclusive, h.Name+": no obligation was reached (vacuous)")
		}
		// violations: dedupe by label, replay.
		seenLabel := map[string]bool{}
		for _, v := range res.Violations {
			if seenLabel[v.Label] {
				continue
			}
			seenLabel[v.Label] = true
			n := len(seenLabel)
			rpath := filepath.Join(*verif, "replays", *prop, fmt.Sprintf("%s-%d.json", h.Name, n))
			writeReplay(rpath, *prop, h, v)
			kind := h.Replay
			if kind == "" {
				kind = "native"
			}
			ok, note := false, ""
			if kind == "native" {
				ok, note = nativeReplay(env, build, sp.Pkg.Path(), h, v, rpath, prog, pkgs)
			} else {
				ok, note = traceReplay(prog, fn, cfg, v)
			}
			if !ok {
				rep.Status = "inconclusive"
				rep.Notes = append(rep.Notes, fmt.Sprintf("ENGINE-DISAGREEMENT on %q: %s", v.Label, note))
				inconclusive = append(inconclusive, fmt.Sprintf("%s: counterexample for %q did not reproduce (%s): %s", h.Name, v.Label, kind, note))
				fmt.Printf("ENGINE-DISAGREEMENT harness=%s label=%q %s\n", h.Name, v.Label, note)
				continue
			}
			isKnown := false
			for _, k := range known {
				if k.kind == "known" && k.prop == *prop && k.harness == h.Name && k.label == v.Label {
					isKnown = true
					key := k.harness + "|" + k.label
					if !knownSeen[key] {
						knownSeen[key] = true
						fmt.Printf("KNOWN-FINDING: property=%s harness=%s label=%q %s\n", *prop, h.Name, v.Label, k.text)
					}
				}
			}
			if len(samples) < 12 {
				samples = append(samples, map[string]interface{}{"harness": h.Name, "counterexample_for": v.Label, "inputs": v.Inputs, "known_finding": isKnown})
			}
			if !isKnown {
				rep.Status = "violated"
				newViolations = append(newViolations, confirmed{v, rpath, kind})
			}
		}
		reports = append(reports, rep)
	}
	violations := len(newViolations)
	for _, c := range newViolations {
		fmt.Printf("VIOLATION property=%s replay=%s harness=%s label=%q replay-kind=%s\n", *prop, c.replay, c.v.Harness, c.v.Label, c.kind)
	}
	var fl []string
	for f := range funcs {
		fl = append(fl, f)
	}
	sort.Strings(fl)
	fe := describeFuncs(prog, fl, *repo)
	writeEvidence(*verif, *prop, *tier, seed, &spec, reports, fe, samples, inconclusive, violations, nontrivial, time.Since(t0).Seconds(), *noEvidence)
	_ = loadSec
	_ = totalPaths
	if violations > 0 {
		return 1
	}
	if len(inconclusive) > 0 {
		for _, s := range inconclusive {
			fmt.Println("INCONCLUSIVE:", s)
		}
		return 2
	}
	fmt.Printf("OK property=%s tier=%s harnesses=%d wall=%.1fs\n", *prop, *tier, len(reports), time.Since(t0).Seconds())
	return 0
}

func round2(f float64) float64 { return float64(int(f*100)) / 100 }

func firstLines(s string, n int) string {
	ls := strings.Split(s, "\n")
	if len(ls) > n {
		ls = ls[:n]
	}
	return strings.Join(ls, "\n")
}

func findHarness(prog *ssa.Program, pkgs []*packages.Package, h HarnessSpec) (*ssa.Function, *ssa.Package) {
	for _, p := range pkgs {
		sp := prog.Package(p.Types)
		if sp == nil {
			continue
		}
		if fn := sp.Func(h.Name); fn != nil {
			return fn, sp
		}
	}
	return nil, nil
}

func writeReplay(path, prop string, h HarnessSpec, v *interp.Violation) {
	os.MkdirAll(filepath.Dir(path), 0o755)
	uf := map[string][]map[string]interface{}{}
	for fn, rows := range v.UF {
		for _, r := range rows {
			uf[fn] = append(uf[fn], map[string]interface{}{"args": r[:len(r)-1], "ret": r[len(r)-1]})
		}
	}
	kind := h.Replay
	if kind == "" {
		kind = "native"
	}
	doc := map[string]interface{}{
		"property": prop, "harness": h.Name, "label": v.Label, "kind": v.Kind, "replay_kind": kind,
		"inputs": v.Inputs, "uf": uf, "trace": v.Trace, "note": v.Detail,
	}
	b, _ := json.MarshalIndent(doc, "", " ")
	os.WriteFile(path, b, 0o644)
}

// nativeReplay runs the harness under `go test` against the real build with
// the model's values and reports whether the same assertion fails.
func nativeReplay(env *load.Env, build, pkgPath string, h HarnessSpec, v *interp.Violation, rpath string, prog *ssa.Program, pkgs []*packages.Package) (bool, string) {
	rel := strings.TrimPrefix(strings.TrimPrefix(pkgPath, env.Module), "/")
	dir := filepath.Join(env.Repo, rel)
	testFile := filepath.Join(build, "zz_replay_"+sanitizeName(rel)+"_test.go")
	pkgName := ""
	for _, p := range pkgs {
		if p.PkgPath == pkgPath {
			pkgName = p.Name
		}
	}
	src := fmt.Sprintf(`//go:build verif

package %s

import (
	"fmt"
	"testing"

	zz "%s/internal/zzverif"
)

func TestZZReplay(t *testing.T) {
	f, esc, div := zz.RunNative(%s)
	fmt.Printf("ZZREPLAY failures=%%q diverged=%%q escaped=%%v\n", f, div, esc)
}
`, pkgName, env.Module, h.Name)
	if err := os.WriteFile(testFile, []byte(src), 0o644); err != nil {
		return false, err.Error()
	}
	extra := map[string]string{filepath.Join(dir, "zz_replay_test.go"): testFile}
	// hide the package's own tests: they are not needed and some do not
	// build against the pinned dependency versions.
	ents, _ := os.ReadDir(dir)
	for _, e := range ents {
		if strings.HasSuffix(e.Name(), "_test.go") {
			extra[filepath.Join(dir, e.Name())] = ""
		}
	}
	ov := filepath.Join(build, "overlay-replay.json")
	if err := env.WriteOverlayJSON(ov, extra); err != nil {
		return false, err.Error()
	}
	relPkg := "./" + rel
	if rel == "" {
		relPkg = "."
	}
	cmd := exec.Command("go", "test", "-tags=verif", "-modfile="+env.ModFile, "-overlay="+ov, "-vet=off", "-count=1", "-v", "-run", "^TestZZReplay$", "-timeout", "120s", relPkg)
	cmd.Dir = env.Repo
	cmd.Env = append(env.GoEnv(), "VERIF_REPLAY="+rpath)
	out, err := cmd.CombinedOutput()
	txt := string(out)
	m := regexp.MustCompile(`ZZREPLAY failures=(\[.*?\]) diverged="(.*?)" escaped=(.*)`).FindStringSubmatch(txt)
	if m == nil {
		return false, "native replay produced no result: " + firstLines(txt, 8) + fmt.Sprint(err)
	}
	if m[2] != "" {
		return false, "native run diverged from the model: " + m[2]
	}
	if v.Kind == "panic" {
		if strings.TrimSpace(m[3]) != "<nil>" {
			return true, "panic reproduced natively: " + m[3]
		}
		return false, "no panic natively"
	}
	if strings.Contains(m[1], strconv.Quote(v.Label)) {
		return true, "assertion failed natively"
	}
	if strings.TrimSpace(m[3]) != "<nil>" {
		return false, "native run panicked instead: " + m[3]
	}
	return false, "assertion held natively: " + m[1]
}

func sanitizeName(s string) string {
	return strings.NewReplacer("/", "_", ".", "_").Replace(s)
}

// traceReplay re-executes the harness in the engine with every input pinned
// to the model's value (no solver decisions left) and checks that the same
// obligation fails concretely.
func traceReplay(prog *ssa.Program, fn *ssa.Function, cfg *interp.Config, v *interp.Violation) (bool, string) {
	c2 := *cfg
	c2.Pinned = v.Inputs
	c2.PinnedUF = v.UF
	c2.Workers = 1
	res := interp.Explore(prog, fn, &c2)
	for _, v2 := range res.Violations {
		if v2.Label == v.Label {
			return true, "reproduced by concrete re-execution of the real code in the engine"
		}
	}
	return false, fmt.Sprintf("concrete re-execution did not fail %q (paths=%d unsupported=%v)", v.Label, res.Paths, res.Unsupported)
}

type funcEvidence struct {
	Name   string `json:"name"`
	File   string `json:"file"`
	Instrs int    `json:"ssa_instructions"`
	SHA    string `json:"file_sha256,omitempty"`
}

func describeFuncs(prog *ssa.Program, names []string, repo string) []funcEvidence {
	byName := map[string]*ssa.Function{}
	for fn := range ssautilAllFunctions(prog) {
		byName[fn.String()] = fn
	}
	shas := map[string]string{}
	var out []funcEvidence
	for _, n := range names {
		fn := byName[n]
		if fn == nil {
			continue
		}
		pos := prog.Fset.Position(fn.Pos())
		if !strings.HasPrefix(pos.Filename, repo+"/") || strings.Contains(pos.Filename, "zz_verif") || strings.Contains(pos.Filename, "zzverif") {
			continue
		}
		cnt := 0
		for _, b := range fn.Blocks {
			cnt += len(b.Instrs)
		}
		sha, ok := shas[pos.Filename]
		if !ok {
			if b, err := os.ReadFile(pos.Filename); err == nil {
				sha = fmt.Sprintf("%x", sha256.Sum256(b))[:16]
			}
			shas[pos.Filename] = sha
		}
		out = append(out, funcEvidence{Name: n, File: fmt.Sprintf("%s:%d", strings.TrimPrefix(pos.Filename, repo+"/"), pos.Line), Instrs: cnt, SHA: sha})
	}
	return out
}

func writeEvidence(verif, prop, tier string, seed int, spec *PropSpec, reports []harnessReport, funcs []funcEvidence, samples []interface{}, inconclusive []string, violations, nontrivial int, wall float64, skip bool) {
	if skip {
		return
	}
	obl, dis, paths, queries := 0, 0, 0, 0
	solver := 0.0
	stubs := map[string]bool{}
	for _, r := range reports {
		obl += r.Obligations
		dis += r.Discharged
		paths += r.Paths
		queries += r.Queries
		solver += r.SolverSec
		for _, s := range r.Stubs {
			stubs[s] = true
		}
	}
	var sl []string
	for s := range stubs {
		sl = append(sl, s)
	}
	sort.Strings(sl)
	if samples == nil {
		samples = []interface{}{}
	}
	exhaustive := len(inconclusive) == 0 && violations == 0 && obl == dis && paths > 0
	cov := map[string]interface{}{
		"explanation": "bounded symbolic execution of the real functions from go/ssa (encoding regenerated from /repo on this run) with every obligation discharged by an SMT solver (z3) under the path condition; " +
			"holds for every input inside the stated bounds, says nothing outside them; not a proof. " + spec.Explanation,
		"obligations":         obl,
		"discharged":          dis,
		"evaluations":         paths,
		"distinct_nontrivial": nontrivial,
		"rule":                "one evaluation = one feasible execution path of a harness through the real code (distinct decision vector); non-trivial = the path ends normally and reaches at least one of the harness's vacuity labels",
		"samples":             samples,
		"exhaustive":          exhaustive,
		"paths":               paths,
		"queries":             queries,
		"solver_s":            round2(solver),
		"harnesses":           reports,
		"functions_encoded":   funcs,
		"stubs":               sl,
		"outside_claim":       spec.Outside,
		"inconclusive":        inconclusive,
		"trusted_base":        []string{"go/ssa construction (x/tools v0.29.0)", "engine interpreter semantics (forked x/tools ssa/interp)", "z3 4.8.12", "dependency shims in /verif/shims"},
	}
	ev := map[string]interface{}{
		"property_id": prop,
		"tier":        tier,
		"seed":        seed,
		"level":       "other",
		"coverage":    cov,
		"assumptions": spec.Assumptions,
		"wall_s":      round2(wall),
		"violations":  violations,
	}
	b, _ := json.MarshalIndent(ev, "", " ")
	os.MkdirAll(filepath.Join(verif, "evidence"), 0o755)
	os.WriteFile(filepath.Join(verif, "evidence", prop+".json"), b, 0o644)
}

func ssautilAllFunctions(prog *ssa.Program) map[*ssa.Function]bool { return ssautil.AllFunctions(prog) }
