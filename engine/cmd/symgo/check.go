package main

func checkMain(args []string) int { return 2 }
