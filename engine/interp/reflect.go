// Copyright 2013 The Go Authors. All rights reserved.
// Use of this source code is governed by a BSD-style
// license that can be found in the LICENSE file.

package interp

// Emulated "reflect" package (extended from x/tools/go/ssa/interp).
//
// reflect.Type is the fake named type rtype wrapping a go/types type.
// reflect.Value is a three-field struct {type, value, addr}: addr, when set,
// is the memory cell the value lives in (an lvalue: slice element, pointer
// target), so that Set and later reads see each other.

import (
	"fmt"
	"go/token"
	"go/types"
	"reflect"
	"sync"

	"golang.org/x/tools/go/ssa"
)

type opaqueType struct {
	types.Type
	name string
}

func (t *opaqueType) String() string { return t.name }

// A bogus "reflect" type-checker package.  Shared across interpreters.
var reflectTypesPackage = types.NewPackage("reflect", "reflect")

var rtypeType = makeNamedType("rtype", &opaqueType{nil, "rtype"})

// error is an (interpreted) named type whose underlying type is string.
var errorType = makeNamedType("error", &opaqueType{nil, "error"})

func makeNamedType(name string, underlying types.Type) *types.Named {
	obj := types.NewTypeName(token.NoPos, reflectTypesPackage, name, nil)
	return types.NewNamed(obj, underlying, nil)
}

func makeReflectValue(t types.Type, v value) value {
	if t == nil {
		return structure{iface{}, iface{}, iface{}}
	}
	return structure{rtype{t}, v, iface{}}
}

func makeReflectLvalue(t types.Type, addr *value) value {
	return structure{rtype{t}, iface{}, addr}
}

func rvValid(v value) bool {
	_, ok := v.(structure)[0].(rtype)
	return ok
}

// Given a reflect.Value, returns its rtype.
func rV2T(v value) rtype {
	rt, ok := v.(structure)[0].(rtype)
	if !ok {
		panic(targetPanic{iface{errorType, "reflect: call of method on zero Value"}})
	}
	return rt
}

func rvAddr(v value) *value {
	a, _ := v.(structure)[2].(*value)
	return a
}

// Given a reflect.Value, returns the underlying interpreter value.
func rV2V(v value) value {
	if a := rvAddr(v); a != nil {
		return load(rV2T(v).t, a)
	}
	return v.(structure)[1]
}

// makeReflectType boxes up an rtype in a reflect.Type interface.
func makeReflectType(rt rtype) value {
	return iface{rtypeType, rt}
}

func argType(v value) types.Type {
	itf := v.(iface)
	if itf.t == nil {
		panic(runtimeErr("invalid memory address or nil pointer dereference (nil reflect.Type)"))
	}
	return itf.v.(rtype).t
}

func ext۰reflect۰rtype۰Bits(fr *frame, args []value) value {
	rt := args[0].(rtype).t
	basic, ok := rt.Underlying().(*types.Basic)
	if !ok {
		panic(fmt.Sprintf("reflect.Type.Bits(%T): non-basic type", rt))
	}
	return int(fr.i.sizes.Sizeof(basic)) * 8
}

func ext۰reflect۰rtype۰Elem(fr *frame, args []value) value {
	return makeReflectType(rtype{args[0].(rtype).t.Underlying().(interface {
		Elem() types.Type
	}).Elem()})
}

func ext۰reflect۰rtype۰Field(fr *frame, args []value) value {
	st := args[0].(rtype).t.Underlying().(*types.Struct)
	i := args[1].(int)
	f := st.Field(i)
	pkg := ""
	if f.Pkg() != nil && !f.Exported() {
		pkg = f.Pkg().Path()
	}
	return structure{
		f.Name(),
		pkg,
		makeReflectType(rtype{f.Type()}),
		st.Tag(i),
		uintptr(0),
		[]value{},
		f.Anonymous(),
	}
}

func ext۰reflect۰rtype۰In(fr *frame, args []value) value {
	i := args[1].(int)
	return makeReflectType(rtype{args[0].(rtype).t.Underlying().(*types.Signature).Params().At(i).Type()})
}

func ext۰reflect۰rtype۰Kind(fr *frame, args []value) value {
	return uint(reflectKind(args[0].(rtype).t))
}

func ext۰reflect۰rtype۰NumField(fr *frame, args []value) value {
	return args[0].(rtype).t.Underlying().(*types.Struct).NumFields()
}

func ext۰reflect۰rtype۰NumIn(fr *frame, args []value) value {
	return args[0].(rtype).t.Underlying().(*types.Signature).Params().Len()
}

func ext۰reflect۰rtype۰NumMethod(fr *frame, args []value) value {
	return fr.i.prog.MethodSets.MethodSet(args[0].(rtype).t).Len()
}

func ext۰reflect۰rtype۰NumOut(fr *frame, args []value) value {
	return args[0].(rtype).t.Underlying().(*types.Signature).Results().Len()
}

func ext۰reflect۰rtype۰Out(fr *frame, args []value) value {
	i := args[1].(int)
	return makeReflectType(rtype{args[0].(rtype).t.Underlying().(*types.Signature).Results().At(i).Type()})
}

func ext۰reflect۰rtype۰Size(fr *frame, args []value) value {
	return uintptr(fr.i.sizes.Sizeof(args[0].(rtype).t))
}

func ext۰reflect۰rtype۰String(fr *frame, args []value) value {
	return types.TypeString(args[0].(rtype).t, func(p *types.Package) string { return p.Name() })
}

func ext۰reflect۰rtype۰Name(fr *frame, args []value) value {
	switch t := args[0].(rtype).t.(type) {
	case *types.Named:
		return t.Obj().Name()
	case *types.Basic:
		return t.Name()
	}
	return ""
}

func ext۰reflect۰rtype۰PkgPath(fr *frame, args []value) value {
	if t, ok := args[0].(rtype).t.(*types.Named); ok && t.Obj().Pkg() != nil {
		return t.Obj().Pkg().Path()
	}
	return ""
}

func ext۰reflect۰rtype۰AssignableTo(fr *frame, args []value) value {
	return types.AssignableTo(args[0].(rtype).t, argType(args[1]))
}

func ext۰reflect۰rtype۰ConvertibleTo(fr *frame, args []value) value {
	return types.ConvertibleTo(args[0].(rtype).t, argType(args[1]))
}

func ext۰reflect۰rtype۰Implements(fr *frame, args []value) value {
	it, ok := argType(args[1]).Underlying().(*types.Interface)
	if !ok {
		panic(targetPanic{iface{errorType, "reflect: non-interface type passed to Type.Implements"}})
	}
	return types.Implements(args[0].(rtype).t, it)
}

func ext۰reflect۰rtype۰Comparable(fr *frame, args []value) value {
	return types.Comparable(args[0].(rtype).t)
}

func ext۰reflect۰rtype۰IsVariadic(fr *frame, args []value) value {
	return args[0].(rtype).t.Underlying().(*types.Signature).Variadic()
}

func ext۰reflect۰rtype۰Len(fr *frame, args []value) value {
	return int(args[0].(rtype).t.Underlying().(*types.Array).Len())
}

func ext۰reflect۰rtype۰Key(fr *frame, args []value) value {
	return makeReflectType(rtype{args[0].(rtype).t.Underlying().(*types.Map).Key()})
}

func ext۰reflect۰New(fr *frame, args []value) value {
	t := argType(args[0])
	alloc := zero(t)
	return makeReflectValue(types.NewPointer(t), &alloc)
}

// reflect.NewAt(typ, p): supported for a slice type when p points at a
// slice-header view {Data, Len, Cap}: the result points at that slice.
func ext۰reflect۰NewAt(fr *frame, args []value) value {
	t := argType(args[0])
	p, ok := args[1].(uptr)
	if !ok || p.cell == nil {
		panic(unsupported{"reflect.NewAt on a non-object pointer"})
	}
	if h, ok := (*p.cell).(structure); ok && len(h) == 3 {
		if st, ok := t.Underlying().(*types.Slice); ok {
			data, _ := h[0].(uptr)
			n, c := asInt64(h[1]), asInt64(h[2])
			var sl []value
			if data.base != nil {
				d2 := data
				d2.esize = fr.i.sizeof(st.Elem())
				idx, ok := fr.i.elemIndex(d2, c)
				if !ok {
					panic(wildDeref{"reflect.NewAt: slice header outside its object"})
				}
				sl = data.base[idx : idx+n : idx+c]
			}
			cell := value(sl)
			return makeReflectValue(types.NewPointer(t), &cell)
		}
	}
	return makeReflectValue(types.NewPointer(t), p.cell)
}

func ext۰reflect۰SliceOf(fr *frame, args []value) value {
	return makeReflectType(rtype{types.NewSlice(argType(args[0]))})
}

func ext۰reflect۰PtrTo(fr *frame, args []value) value {
	return makeReflectType(rtype{types.NewPointer(argType(args[0]))})
}

func ext۰reflect۰TypeOf(fr *frame, args []value) value {
	t := args[0].(iface).t
	if t == nil {
		return iface{}
	}
	if t == rtypeType {
		// reflect.TypeOf(reflect.Type value): the concrete *rtype
		return makeReflectType(rtype{rtypeType})
	}
	return makeReflectType(rtype{t})
}

func ext۰reflect۰ValueOf(fr *frame, args []value) value {
	itf := args[0].(iface)
	return makeReflectValue(itf.t, itf.v)
}

func ext۰reflect۰Zero(fr *frame, args []value) value {
	t := argType(args[0])
	return makeReflectValue(t, zero(t))
}

func ext۰reflect۰MakeSlice(fr *frame, args []value) value {
	t := argType(args[0])
	n := fr.i.concreteInt(args[1], 0, int64(fr.i.cfg.MaxAlloc), "reflect.MakeSlice len")
	c := fr.i.concreteInt(args[2], n, int64(fr.i.cfg.MaxAlloc), "reflect.MakeSlice cap")
	et := t.Underlying().(*types.Slice).Elem()
	s := make([]value, c)
	for k := range s {
		s[k] = zero(et)
	}
	return makeReflectValue(t, s[:n])
}

func ext۰reflect۰Indirect(fr *frame, args []value) value {
	if !rvValid(args[0]) {
		return args[0]
	}
	if _, ok := rV2T(args[0]).t.Underlying().(*types.Pointer); ok {
		return ext۰reflect۰Value۰Elem(fr, args)
	}
	return args[0]
}

func ext۰reflect۰Swapper(fr *frame, args []value) value {
	itf := args[0].(iface)
	s, ok := itf.v.([]value)
	if !ok {
		panic(targetPanic{iface{errorType, "reflect: call of Swapper on non-slice"}})
	}
	return &nativeFn{name: "reflect.Swapper$1", fn: func(fr2 *frame, a []value) value {
		x := fr2.i.indexInt(a[0], len(s))
		y := fr2.i.indexInt(a[1], len(s))
		s[x], s[y] = s[y], s[x]
		return nil
	}}
}

func ext۰reflect۰Copy(fr *frame, args []value) value {
	dst := rV2V(args[0]).([]value)
	src := rV2V(args[1]).([]value)
	cp := make([]value, len(src))
	for k := range src {
		cp[k] = copyVal(src[k])
	}
	return copy(dst, cp)
}

func ext۰reflect۰AppendSlice(fr *frame, args []value) value {
	t := rV2T(args[0]).t
	dst := rV2V(args[0]).([]value)
	src := rV2V(args[1]).([]value)
	cp := make([]value, len(src))
	for k := range src {
		cp[k] = copyVal(src[k])
	}
	return makeReflectValue(t, append(dst, cp...))
}

func ext۰reflect۰Append(fr *frame, args []value) value {
	t := rV2T(args[0]).t
	dst := rV2V(args[0]).([]value)
	for _, e := range args[1].([]value) {
		dst = append(dst, copyVal(rV2V(e)))
	}
	return makeReflectValue(t, dst)
}

func reflectKind(t types.Type) reflect.Kind {
	switch t := t.(type) {
	case *types.Named, *types.Alias:
		if t == rtypeType {
			return reflect.Ptr
		}
		return reflectKind(t.Underlying())
	case *types.Basic:
		switch t.Kind() {
		case types.Bool:
			return reflect.Bool
		case types.Int:
			return reflect.Int
		case types.Int8:
			return reflect.Int8
		case types.Int16:
			return reflect.Int16
		case types.Int32:
			return reflect.Int32
		case types.Int64:
			return reflect.Int64
		case types.Uint:
			return reflect.Uint
		case types.Uint8:
			return reflect.Uint8
		case types.Uint16:
			return reflect.Uint16
		case types.Uint32:
			return reflect.Uint32
		case types.Uint64:
			return reflect.Uint64
		case types.Uintptr:
			return reflect.Uintptr
		case types.Float32:
			return reflect.Float32
		case types.Float64:
			return reflect.Float64
		case types.Complex64:
			return reflect.Complex64
		case types.Complex128:
			return reflect.Complex128
		case types.String:
			return reflect.String
		case types.UnsafePointer:
			return reflect.UnsafePointer
		}
	case *types.Array:
		return reflect.Array
	case *types.Chan:
		return reflect.Chan
	case *types.Signature:
		return reflect.Func
	case *types.Interface:
		return reflect.Interface
	case *types.Map:
		return reflect.Map
	case *types.Pointer:
		return reflect.Ptr
	case *types.Slice:
		return reflect.Slice
	case *types.Struct:
		return reflect.Struct
	}
	panic(fmt.Sprint("unexpected type: ", t))
}

func ext۰reflect۰Value۰Kind(fr *frame, args []value) value {
	if !rvValid(args[0]) {
		return uint(reflect.Invalid)
	}
	return uint(reflectKind(rV2T(args[0]).t))
}

func ext۰reflect۰Value۰String(fr *frame, args []value) value {
	if !rvValid(args[0]) {
		return "<invalid Value>"
	}
	if s, ok := rV2V(args[0]).(string); ok {
		return s
	}
	return "<" + rV2T(args[0]).t.String() + " Value>"
}

func ext۰reflect۰Value۰Type(fr *frame, args []value) value {
	return makeReflectType(rV2T(args[0]))
}

func ext۰reflect۰Value۰Uint(fr *frame, args []value) value {
	v := rV2V(args[0])
	if s, ok := v.(sym); ok {
		return fr.i.symConv(types.Typ[types.Uint64], rV2T(args[0]).t, s)
	}
	return asUint64Any(v)
}

func ext۰reflect۰Value۰Int(fr *frame, args []value) value {
	v := rV2V(args[0])
	if s, ok := v.(sym); ok {
		return fr.i.symConv(types.Typ[types.Int64], rV2T(args[0]).t, s)
	}
	return asInt64(v)
}

func ext۰reflect۰Value۰Float(fr *frame, args []value) value {
	switch v := rV2V(args[0]).(type) {
	case float32:
		return float64(v)
	case float64:
		return v
	case sym:
		return fr.i.symConv(types.Typ[types.Float64], rV2T(args[0]).t, v)
	}
	panic("reflect.Value.Float")
}

func ext۰reflect۰Value۰Bool(fr *frame, args []value) value {
	return rV2V(args[0])
}

func ext۰reflect۰Value۰Len(fr *frame, args []value) value {
	switch v := rV2V(args[0]).(type) {
	case string:
		return len(v)
	case array:
		return len(v)
	case *channel:
		return len(v.buf)
	case []value:
		return len(v)
	case *omap:
		return v.len()
	default:
		panic(fmt.Sprintf("reflect.(Value).Len(%v)", v))
	}
}

func ext۰reflect۰Value۰Cap(fr *frame, args []value) value {
	switch v := rV2V(args[0]).(type) {
	case array:
		return len(v)
	case *channel:
		return v.cap
	case []value:
		return cap(v)
	default:
		panic(fmt.Sprintf("reflect.(Value).Cap(%v)", v))
	}
}

func ext۰reflect۰Value۰MapIndex(fr *frame, args []value) value {
	tValue := rV2T(args[0]).t.Underlying().(*types.Map).Elem()
	k := rV2V(args[1])
	switch m := rV2V(args[0]).(type) {
	case *omap:
		if v, ok := m.lookup(k); ok {
			return makeReflectValue(tValue, v)
		}
	default:
		panic(fmt.Sprintf("(reflect.Value).MapIndex(%T, %T)", m, k))
	}
	return makeReflectValue(nil, nil)
}

func ext۰reflect۰Value۰MapKeys(fr *frame, args []value) value {
	var keys []value
	tKey := rV2T(args[0]).t.Underlying().(*types.Map).Key()
	switch v := rV2V(args[0]).(type) {
	case *omap:
		if v != nil {
			for _, e := range v.entries {
				if !e.deleted {
					keys = append(keys, makeReflectValue(tKey, e.k))
				}
			}
		}
	default:
		panic(fmt.Sprintf("(reflect.Value).MapKeys(%T)", v))
	}
	return keys
}

func ext۰reflect۰Value۰NumField(fr *frame, args []value) value {
	return len(rV2V(args[0]).(structure))
}

func ext۰reflect۰Value۰NumMethod(fr *frame, args []value) value {
	return fr.i.prog.MethodSets.MethodSet(rV2T(args[0]).t).Len()
}

func ext۰reflect۰Value۰Pointer(fr *frame, args []value) value {
	// Signature: func (v reflect.Value) uintptr — returned as an address value.
	t := rV2T(args[0]).t
	switch v := rV2V(args[0]).(type) {
	case *value:
		if v == nil {
			return uptr{}
		}
		return uptr{cell: v}
	case []value:
		if v == nil {
			return uptr{}
		}
		return fr.i.sliceAddr(v, t.Underlying().(*types.Slice).Elem())
	case rtype:
		rt := v
		return uptr{typ: &rt}
	case *ssa.Function:
		return uptr{cell: fr.i.codePointer(v)}
	case *closure:
		// like the real runtime: the code pointer, shared by all closures of
		// one function literal
		return uptr{cell: fr.i.codePointer(v.Fn)}
	case *nativeFn, *omap, *channel:
		c := value(v)
		return uptr{cell: &c}
	case uptr:
		return v
	default:
		panic(unsupported{fmt.Sprintf("reflect.(Value).Pointer(%T)", v)})
	}
}

func ext۰reflect۰Value۰Index(fr *frame, args []value) value {
	t := rV2T(args[0]).t.Underlying()
	switch v := rV2V(args[0]).(type) {
	case []value:
		i := fr.i.indexInt(args[1], len(v))
		return makeReflectLvalue(t.(*types.Slice).Elem(), &v[i])
	case array:
		i := fr.i.indexInt(args[1], len(v))
		if a := rvAddr(args[0]); a != nil {
			return makeReflectLvalue(t.(*types.Array).Elem(), &(*a).(array)[i])
		}
		return makeReflectValue(t.(*types.Array).Elem(), v[i])
	case string:
		i := fr.i.indexInt(args[1], len(v))
		return makeReflectValue(types.Typ[types.Uint8], v[i])
	default:
		panic(fmt.Sprintf("reflect.(Value).Index(%T)", v))
	}
}

func ext۰reflect۰Value۰Slice(fr *frame, args []value) value {
	t := rV2T(args[0]).t
	switch v := rV2V(args[0]).(type) {
	case []value:
		return makeReflectValue(t, slice(fr.i, v, args[1], args[2], nil))
	case string:
		return makeReflectValue(t, slice(fr.i, v, args[1], args[2], nil))
	default:
		panic(unsupported{fmt.Sprintf("reflect.(Value).Slice(%T)", v)})
	}
}

func ext۰reflect۰Value۰CanAddr(fr *frame, args []value) value {
	return rvAddr(args[0]) != nil
}

func ext۰reflect۰Value۰CanInterface(fr *frame, args []value) value {
	return true
}

func ext۰reflect۰Value۰Elem(fr *frame, args []value) value {
	switch x := rV2V(args[0]).(type) {
	case iface:
		return makeReflectValue(x.t, x.v)
	case *value:
		if x == nil {
			return makeReflectValue(nil, nil)
		}
		return makeReflectLvalue(rV2T(args[0]).t.Underlying().(*types.Pointer).Elem(), x)
	default:
		panic(fmt.Sprintf("reflect.(Value).Elem(%T)", x))
	}
}

func ext۰reflect۰Value۰Addr(fr *frame, args []value) value {
	a := rvAddr(args[0])
	if a == nil {
		panic(targetPanic{iface{errorType, "reflect.Value.Addr of unaddressable value"}})
	}
	return makeReflectValue(types.NewPointer(rV2T(args[0]).t), a)
}

func ext۰reflect۰Value۰Field(fr *frame, args []value) value {
	i := args[1].(int)
	st := rV2T(args[0]).t.Underlying().(*types.Struct)
	if a := rvAddr(args[0]); a != nil {
		return makeReflectLvalue(st.Field(i).Type(), &(*a).(structure)[i])
	}
	v := rV2V(args[0]).(structure)
	return makeReflectValue(st.Field(i).Type(), v[i])
}

func ext۰reflect۰Value۰Interface(fr *frame, args []value) value {
	return ext۰reflect۰valueInterface(fr, args)
}

func ext۰reflect۰Value۰IsNil(fr *frame, args []value) value {
	switch x := rV2V(args[0]).(type) {
	case *value:
		return x == nil
	case *channel:
		return x == nil
	case *omap:
		return x == nil
	case []value:
		return x == nil
	case *ssa.Function:
		return x == nil
	case *ssa.Builtin:
		return x == nil
	case *closure:
		return x == nil
	case *nativeFn:
		return x == nil
	case iface:
		return x.t == nil
	case uptr:
		return x.isNil()
	default:
		panic(fmt.Sprintf("reflect.(Value).IsNil(%T)", x))
	}
}

func ext۰reflect۰Value۰IsValid(fr *frame, args []value) value {
	return rvValid(args[0])
}

func ext۰reflect۰Value۰Set(fr *frame, args []value) value {
	a := rvAddr(args[0])
	if a == nil {
		panic(targetPanic{iface{errorType, "reflect: reflect.Value.Set using unaddressable value"}})
	}
	t := rV2T(args[0]).t
	v := rV2V(args[1])
	if _, ok := t.Underlying().(*types.Interface); ok {
		if _, isIface := rV2T(args[1]).t.Underlying().(*types.Interface); !isIface {
			v = iface{rV2T(args[1]).t, v}
		}
	}
	store(t, a, v)
	return nil
}

func ext۰reflect۰Value۰SetScalar(fr *frame, args []value) value {
	a := rvAddr(args[0])
	if a == nil {
		panic(targetPanic{iface{errorType, "reflect: reflect.Value.Set* using unaddressable value"}})
	}
	t := rV2T(args[0]).t
	src := fr.fn.Signature.Params().At(0).Type()
	v := args[1]
	if _, ok := src.Underlying().(*types.Basic); ok && !types.Identical(src, t.Underlying()) {
		v = conv(fr.i, t, src, v)
	}
	store(t, a, v)
	return nil
}

func ext۰reflect۰valueInterface(fr *frame, args []value) value {
	v := args[0].(structure)
	t := rV2T(v).t
	if _, ok := t.Underlying().(*types.Interface); ok {
		return rV2V(v)
	}
	return iface{t, copyVal(rV2V(v))}
}

func ext۰reflect۰Value۰Call(fr *frame, args []value) value {
	fnv := rV2V(args[0])
	sig := rV2T(args[0]).t.Underlying().(*types.Signature)
	in := args[1].([]value)
	var cargs []value
	np := sig.Params().Len()
	for k, a := range in {
		var pt types.Type
		if sig.Variadic() && k >= np-1 {
			pt = sig.Params().At(np - 1).Type().(*types.Slice).Elem()
		} else {
			pt = sig.Params().At(k).Type()
		}
		v := copyVal(rV2V(a))
		if _, ok := pt.Underlying().(*types.Interface); ok {
			if _, isIface := rV2T(a).t.Underlying().(*types.Interface); !isIface {
				v = iface{rV2T(a).t, v}
			}
		}
		cargs = append(cargs, v)
	}
	if sig.Variadic() {
		fixed := cargs[:np-1]
		rest := append([]value(nil), cargs[np-1:]...)
		cargs = append(append([]value(nil), fixed...), rest)
	}
	r := call(fr.i, fr, token.NoPos, fnv, cargs)
	res := sig.Results()
	switch res.Len() {
	case 0:
		return []value(nil)
	case 1:
		return []value{makeReflectValue(res.At(0).Type(), r)}
	}
	out := make([]value, res.Len())
	for k := range out {
		out[k] = makeReflectValue(res.At(k).Type(), r.(tuple)[k])
	}
	return out
}

func ext۰reflect۰error۰Error(fr *frame, args []value) value {
	return args[0]
}

// newMethod creates a new method of the specified name, package and receiver type.
func newMethod(pkg *ssa.Package, recvType types.Type, name string) *ssa.Function {
	sig := types.NewSignature(types.NewVar(token.NoPos, nil, "recv", recvType), nil, nil, false)
	fn := pkg.Prog.NewFunction(name, sig, "fake reflect method")
	fn.Pkg = pkg
	return fn
}

var rtypeMethodNames = []string{
	"Bits", "Elem", "Field", "In", "Kind", "NumField", "NumIn", "NumMethod", "NumOut", "Out", "Size", "String",
	"Name", "PkgPath", "AssignableTo", "ConvertibleTo", "Implements", "Comparable", "IsVariadic", "Len", "Key",
}

type reflectShared struct {
	pkg          *ssa.Package
	rtypeMethods methodSet
	errorMethods methodSet
}

var (
	reflectOnce   sync.Once
	reflectGlobal *reflectShared
)

func initReflect(i *interpreter) {
	reflectOnce.Do(func() {
		rs := &reflectShared{}
		rs.pkg = &ssa.Package{
			Prog:    i.prog,
			Pkg:     reflectTypesPackage,
			Members: make(map[string]ssa.Member),
		}
		// Clobber the type-checker's notion of reflect.Value's underlying type
		// so that it matches the fake one.
		if r := i.prog.ImportedPackage("reflect"); r != nil {
			rV := r.Pkg.Scope().Lookup("Value").Type().(*types.Named)
			mset := i.prog.MethodSets.MethodSet(rV)
			for j := 0; j < mset.Len(); j++ {
				i.prog.MethodValue(mset.At(j)).Blocks = nil
			}
			pset := i.prog.MethodSets.MethodSet(types.NewPointer(rV))
			for j := 0; j < pset.Len(); j++ {
				if f := i.prog.MethodValue(pset.At(j)); f != nil && f.Synthetic == "" {
					f.Blocks = nil
				}
			}
			tEface := types.NewInterface(nil, nil).Complete()
			rV.SetUnderlying(types.NewStruct([]*types.Var{
				types.NewField(token.NoPos, r.Pkg, "t", tEface, false), // a lie
				types.NewField(token.NoPos, r.Pkg, "v", tEface, false),
				types.NewField(token.NoPos, r.Pkg, "a", tEface, false),
			}, nil))
		}
		rs.rtypeMethods = methodSet{}
		for _, n := range rtypeMethodNames {
			rs.rtypeMethods[n] = newMethod(rs.pkg, rtypeType, n)
		}
		rs.errorMethods = methodSet{
			"Error": newMethod(rs.pkg, errorType, "Error"),
		}
		reflectGlobal = rs
	})
	i.reflectPackage = reflectGlobal.pkg
	i.rtypeMethods = reflectGlobal.rtypeMethods
	i.errorMethods = reflectGlobal.errorMethods
}

func init() {
	for k, v := range map[string]externalFn{
		"(reflect.Value).Bool":         ext۰reflect۰Value۰Bool,
		"(reflect.Value).CanAddr":      ext۰reflect۰Value۰CanAddr,
		"(reflect.Value).CanSet":       ext۰reflect۰Value۰CanAddr,
		"(reflect.Value).CanInterface": ext۰reflect۰Value۰CanInterface,
		"(reflect.Value).Elem":         ext۰reflect۰Value۰Elem,
		"(reflect.Value).Addr":         ext۰reflect۰Value۰Addr,
		"(reflect.Value).Field":        ext۰reflect۰Value۰Field,
		"(reflect.Value).Float":        ext۰reflect۰Value۰Float,
		"(reflect.Value).Index":        ext۰reflect۰Value۰Index,
		"(reflect.Value).Slice":        ext۰reflect۰Value۰Slice,
		"(reflect.Value).Int":          ext۰reflect۰Value۰Int,
		"(reflect.Value).Interface":    ext۰reflect۰Value۰Interface,
		"(reflect.Value).IsNil":        ext۰reflect۰Value۰IsNil,
		"(reflect.Value).IsValid":      ext۰reflect۰Value۰IsValid,
		"(reflect.Value).Kind":         ext۰reflect۰Value۰Kind,
		"(reflect.Value).Len":          ext۰reflect۰Value۰Len,
		"(reflect.Value).Cap":          ext۰reflect۰Value۰Cap,
		"(reflect.Value).MapIndex":     ext۰reflect۰Value۰MapIndex,
		"(reflect.Value).MapKeys":      ext۰reflect۰Value۰MapKeys,
		"(reflect.Value).NumField":     ext۰reflect۰Value۰NumField,
		"(reflect.Value).NumMethod":    ext۰reflect۰Value۰NumMethod,
		"(reflect.Value).Pointer":      ext۰reflect۰Value۰Pointer,
		"(reflect.Value).UnsafePointer": ext۰reflect۰Value۰Pointer,
		"(reflect.Value).Set":          ext۰reflect۰Value۰Set,
		"(reflect.Value).SetInt":       ext۰reflect۰Value۰SetScalar,
		"(reflect.Value).SetUint":      ext۰reflect۰Value۰SetScalar,
		"(reflect.Value).SetFloat":     ext۰reflect۰Value۰SetScalar,
		"(reflect.Value).SetBool":      ext۰reflect۰Value۰SetScalar,
		"(reflect.Value).SetString":    ext۰reflect۰Value۰SetScalar,
		"(reflect.Value).String":       ext۰reflect۰Value۰String,
		"(reflect.Value).Type":         ext۰reflect۰Value۰Type,
		"(reflect.Value).Uint":         ext۰reflect۰Value۰Uint,
		"(reflect.Value).Call":         ext۰reflect۰Value۰Call,
		"(reflect.error).Error":        ext۰reflect۰error۰Error,
		"(reflect.rtype).Bits":         ext۰reflect۰rtype۰Bits,
		"(reflect.rtype).Elem":         ext۰reflect۰rtype۰Elem,
		"(reflect.rtype).Field":        ext۰reflect۰rtype۰Field,
		"(reflect.rtype).In":           ext۰reflect۰rtype۰In,
		"(reflect.rtype).Kind":         ext۰reflect۰rtype۰Kind,
		"(reflect.rtype).NumField":     ext۰reflect۰rtype۰NumField,
		"(reflect.rtype).NumIn":        ext۰reflect۰rtype۰NumIn,
		"(reflect.rtype).NumMethod":    ext۰reflect۰rtype۰NumMethod,
		"(reflect.rtype).NumOut":       ext۰reflect۰rtype۰NumOut,
		"(reflect.rtype).Out":          ext۰reflect۰rtype۰Out,
		"(reflect.rtype).Size":         ext۰reflect۰rtype۰Size,
		"(reflect.rtype).String":       ext۰reflect۰rtype۰String,
		"(reflect.rtype).Name":         ext۰reflect۰rtype۰Name,
		"(reflect.rtype).PkgPath":      ext۰reflect۰rtype۰PkgPath,
		"(reflect.rtype).AssignableTo": ext۰reflect۰rtype۰AssignableTo,
		"(reflect.rtype).ConvertibleTo": ext۰reflect۰rtype۰ConvertibleTo,
		"(reflect.rtype).Implements":   ext۰reflect۰rtype۰Implements,
		"(reflect.rtype).Comparable":   ext۰reflect۰rtype۰Comparable,
		"(reflect.rtype).IsVariadic":   ext۰reflect۰rtype۰IsVariadic,
		"(reflect.rtype).Len":          ext۰reflect۰rtype۰Len,
		"(reflect.rtype).Key":          ext۰reflect۰rtype۰Key,
		"reflect.New":                  ext۰reflect۰New,
		"reflect.SliceOf":              ext۰reflect۰SliceOf,
		"reflect.NewAt":                ext۰reflect۰NewAt,
		"reflect.PtrTo":                ext۰reflect۰PtrTo,
		"reflect.PointerTo":            ext۰reflect۰PtrTo,
		"reflect.TypeOf":               ext۰reflect۰TypeOf,
		"reflect.ValueOf":              ext۰reflect۰ValueOf,
		"reflect.Zero":                 ext۰reflect۰Zero,
		"reflect.MakeSlice":            ext۰reflect۰MakeSlice,
		"reflect.Indirect":             ext۰reflect۰Indirect,
		"reflect.Swapper":              ext۰reflect۰Swapper,
		"reflect.Copy":                 ext۰reflect۰Copy,
		"reflect.Append":               ext۰reflect۰Append,
		"reflect.AppendSlice":          ext۰reflect۰AppendSlice,
	} {
		externals[k] = v
	}
}
