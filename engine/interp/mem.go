package interp

// Model of unsafe.Pointer / uintptr values that are derived from Go
// objects: an address is (object, byte offset). Objects are either a
// single memory cell or the backing store of a slice with a known element
// size. Offsets may be symbolic; they are resolved to element indices by a
// case split when the pointer is converted back to a typed pointer or used
// by a memory intrinsic.

import (
	"fmt"
	"go/token"
	"go/types"
	"unsafe"
)

type uptr struct {
	cell  *value  // single-cell object (nil if base is set)
	base  []value // slice backing store, base[0] is byte offset 0
	esize int64   // element size of base
	off   value   // byte offset: int64 or sym (BV64); nil means 0
	typ   *rtype  // set when the pointer stands for a runtime type descriptor
	raw   uint64  // plain integer value when no object is attached
	str   string  // unsafe.StringData
	isStr bool
}

func (p uptr) isNil() bool {
	return p.cell == nil && p.base == nil && p.typ == nil && p.raw == 0 && p.offIsZero()
}

func (p uptr) offIsZero() bool {
	if p.off == nil {
		return true
	}
	if v, ok := p.off.(int64); ok {
		return v == 0
	}
	return false
}

func (p uptr) hash() int {
	if p.cell != nil {
		return int(uintptr(unsafe.Pointer(p.cell)))
	}
	if len(p.base) > 0 {
		return int(uintptr(unsafe.Pointer(&p.base[0])))
	}
	return int(p.raw)
}

func uptrEq(x uptr, y value) bool {
	o, ok := y.(uptr)
	if !ok {
		return false
	}
	if x.cell != o.cell || x.typ != o.typ && (x.typ == nil || o.typ == nil || !types.Identical(x.typ.t, o.typ.t)) {
		return false
	}
	if (x.base == nil) != (o.base == nil) {
		return false
	}
	if x.base != nil && (len(x.base) == 0 || len(o.base) == 0 || &x.base[0] != &o.base[0]) {
		if !(len(x.base) == 0 && len(o.base) == 0) {
			return false
		}
	}
	xo, xok := offInt(x.off)
	oo, ook := offInt(o.off)
	if !xok || !ook {
		panic(unsupported{"comparison of pointers with symbolic offsets"})
	}
	return xo == oo && x.raw == o.raw
}

func offInt(v value) (int64, bool) {
	switch x := v.(type) {
	case nil:
		return 0, true
	case int64:
		return x, true
	}
	return 0, false
}

func (i *interpreter) sizeof(t types.Type) int64 { return i.sizes.Sizeof(t) }

// uptrBinop implements uintptr arithmetic on address values.
func (i *interpreter) uptrBinop(op token.Token, x, y value) value {
	px, xok := x.(uptr)
	py, yok := y.(uptr)
	switch {
	case xok && yok:
		switch op {
		case token.EQL:
			return uptrEq(px, py)
		case token.NEQ:
			return !uptrEq(px, py)
		case token.SUB:
			if px.cell == py.cell && (len(px.base) == 0) == (len(py.base) == 0) && (len(px.base) == 0 || &px.base[0] == &py.base[0]) {
				return i.offArith(token.SUB, px.offVal(), py.offVal())
			}
		}
	case xok:
		switch op {
		case token.ADD:
			r := px
			r.off = i.offArith(token.ADD, px.offVal(), y)
			return r
		case token.SUB:
			r := px
			r.off = i.offArith(token.SUB, px.offVal(), y)
			return r
		case token.XOR, token.OR:
			// noescape idiom: uintptr(p) ^ 0
			if !isSym(y) && asUint64Any(y) == 0 {
				return px
			}
		case token.EQL, token.NEQ:
			// comparison with an integer (nil check via uintptr(0))
			if !isSym(y) && asUint64Any(y) == 0 {
				return (op == token.EQL) == px.isNil()
			}
		}
	case yok:
		if op == token.ADD {
			r := py
			r.off = i.offArith(token.ADD, py.offVal(), x)
			return r
		}
	}
	panic(unsupported{fmt.Sprintf("pointer arithmetic %T %s %T", x, op, y)})
}

func (p uptr) offVal() value {
	if p.off == nil {
		return int64(0)
	}
	return p.off
}

// offArith adds/subtracts byte offsets (int64 or BV64 terms; the operand may
// be any integer type).
func (i *interpreter) offArith(op token.Token, a, b value) value {
	norm := func(v value) value {
		if s, ok := v.(sym); ok {
			if s.k == kBV && s.w == 64 {
				return s
			}
			panic(unsupported{"pointer offset of sort " + s.sort()})
		}
		return int64(asUint64Any(v))
	}
	a, b = norm(a), norm(b)
	if !isSym(a) && !isSym(b) {
		if op == token.ADD {
			return a.(int64) + b.(int64)
		}
		return a.(int64) - b.(int64)
	}
	return i.symBinop(op, types.Typ[types.Int64], a, b)
}

// convPointer handles the conversions that involve unsafe.Pointer/uintptr
// address values. ok=false means "not a pointer conversion".
func (i *interpreter) convPointer(t_dst, t_src types.Type, x value) (value, bool) {
	ut_src := t_src.Underlying()
	ut_dst := t_dst.Underlying()
	isUnsafe := func(t types.Type) bool {
		b, ok := t.(*types.Basic)
		return ok && b.Kind() == types.UnsafePointer
	}
	isUintptr := func(t types.Type) bool {
		b, ok := t.(*types.Basic)
		return ok && b.Kind() == types.Uintptr
	}
	switch {
	case isUnsafe(ut_dst):
		switch v := x.(type) {
		case *value:
			if v == nil {
				return uptr{}, true
			}
			return uptr{cell: v}, true
		case uptr:
			return v, true
		case unsafe.Pointer:
			if v == nil {
				return uptr{}, true
			}
		case uintptr:
			return uptr{raw: uint64(v)}, true
		}
		panic(unsupported{fmt.Sprintf("conversion of %T to unsafe.Pointer", x)})
	case isUnsafe(ut_src):
		p, ok := x.(uptr)
		if !ok {
			if up, ok2 := x.(unsafe.Pointer); ok2 && up == nil {
				p = uptr{}
			} else {
				panic(unsupported{fmt.Sprintf("unsafe.Pointer value %T", x)})
			}
		}
		if isUintptr(ut_dst) {
			return p, true
		}
		if pt, ok := ut_dst.(*types.Pointer); ok {
			return i.derefTarget(p, pt.Elem()), true
		}
		panic(unsupported{"conversion of unsafe.Pointer to " + t_dst.String()})
	case isUintptr(ut_src):
		if p, ok := x.(uptr); ok {
			if isUintptr(ut_dst) {
				return p, true
			}
			// uintptr address to other integer: only raw values
			if p.cell == nil && p.base == nil && p.typ == nil {
				return nil, false
			}
			panic(unsupported{"address value converted to " + t_dst.String()})
		}
	}
	return nil, false
}

// derefTarget turns an address into a typed pointer (*value) to an element
// of type elem.
func (i *interpreter) derefTarget(p uptr, elem types.Type) *value {
	if p.isNil() {
		return (*value)(nil)
	}
	if p.cell != nil {
		if !p.offIsZero() {
			panic(unsupported{"pointer arithmetic inside a single-cell object"})
		}
		// (*reflect.SliceHeader)(unsafe.Pointer(&slice)): a detached header
		// view {Data, Len, Cap} of the slice variable.
		if sl, ok := (*p.cell).([]value); ok {
			if st, ok := elem.Underlying().(*types.Struct); ok && st.NumFields() == 3 && st.Field(0).Name() == "Data" {
				var data value = uptr{}
				if sl != nil {
					data = uptr{base: sl[:cap(sl)], esize: 8}
				}
				h := value(structure{data, len(sl), cap(sl)})
				return &h
			}
		}
		return p.cell
	}
	if p.base == nil {
		panic(unsupported{"typed pointer from a non-object address"})
	}
	idx, ok := i.elemIndex(p, 1)
	if !ok {
		w := value(wild{})
		return &w
	}
	if sz := i.sizeof(elem); sz != p.esize {
		panic(unsupported{fmt.Sprintf("typed pointer of size %d into elements of size %d", sz, p.esize)})
	}
	return &p.base[idx]
}

// elemIndex resolves the byte offset of p to an element index such that n
// elements starting there are inside the object; ok=false if they are not.
func (i *interpreter) elemIndex(p uptr, n int64) (int64, bool) {
	max := int64(len(p.base)) - n
	switch off := p.offVal().(type) {
	case int64:
		if off%p.esize != 0 {
			panic(unsupported{"misaligned pointer"})
		}
		idx := off / p.esize
		if idx < 0 || idx > max {
			return idx, false
		}
		return idx, true
	case sym:
		px := i.px
		// in range and aligned?
		if max < 0 {
			return 0, false
		}
		hiOff := bvLit(uint64(max*p.esize), 64)
		c := "(and (bvsle " + bvLit(0, 64) + " " + off.t + ") (bvsle " + off.t + " " + hiOff + "))"
		if !px.branch(px.mkBool(c), "address inside object") {
			return 0, false
		}
		for k := int64(0); k < max; k++ {
			eq := "(= " + off.t + " " + bvLit(uint64(k*p.esize), 64) + ")"
			if px.branch(px.mkBool(eq), fmt.Sprintf("elem==%d", k)) {
				return k, true
			}
		}
		eq := px.mkBool("(= " + off.t + " " + bvLit(uint64(max*p.esize), 64) + ")")
		if !px.branch(eq, "elem==max") {
			panic(unsupported{"misaligned symbolic pointer"})
		}
		return max, true
	}
	panic("elemIndex")
}

// memmove copies n elements from src to dst (overlap-safe).
func (i *interpreter) memmove(dst, src uptr, n int64, what string) {
	if n == 0 {
		return
	}
	if dst.cell != nil || src.cell != nil {
		if n != 1 || dst.cell == nil || src.cell == nil {
			panic(unsupported{what + ": mixed cell/array copy"})
		}
		store1(dst.cell, *src.cell)
		return
	}
	di, ok1 := i.elemIndex(dst, n)
	si, ok2 := i.elemIndex(src, n)
	if !ok1 || !ok2 {
		panic(wildDeref{what + ": copies outside the bounds of an object"})
	}
	tmp := make([]value, n)
	for k := int64(0); k < n; k++ {
		tmp[k] = copyVal(src.base[si+k])
	}
	for k := int64(0); k < n; k++ {
		dst.base[di+k] = tmp[k]
	}
}

func store1(addr *value, v value) { *addr = copyVal(v) }

// sliceAddr returns the address of element 0 of a slice's full backing
// store as seen from the slice (offset 0 = s[0]).
func (i *interpreter) sliceAddr(s []value, elem types.Type) uptr {
	full := s[:cap(s)]
	return uptr{base: full, esize: i.sizeof(elem)}
}
