package interp

// Engine glue: configuration, lazy globals and package initialisation,
// interception of calls (stubs, intrinsics), sequential channels, helpers
// that turn symbolic integers into concrete ones by case split.

import (
	"fmt"
	"go/token"
	"go/types"
	"os"
	"runtime/debug"
	"strings"

	"golang.org/x/tools/go/ssa"
)

// Config controls one exploration.
type Config struct {
	MaxDecisions int  // per-path decision depth bound (unwinding bound)
	MaxSteps     int  // per-path instruction budget
	MaxAlloc     int  // largest symbolic allocation size
	MaxPaths     int  // exploration budget
	DebugPanics  bool
	Trace        bool
	QueryTimeoutMs int
	// ResidentTimeoutMs, if > 0, is the (shorter) per-query timeout of the
	// resident incremental solver; a query it gives up on is handed to the
	// one-shot portfolio, which gets the full QueryTimeoutMs.
	ResidentTimeoutMs int
	Solver       string
	Workers      int
	// Stubs redirects calls: full function name (ssa Function.String()) ->
	// replacement function name in the harness package.
	Stubs map[string]string
	// Pinned fixes every harness input to a model value (concrete
	// re-execution of a counterexample); PinnedUF likewise for UF points.
	Pinned   map[string][]string
	PinnedUF map[string][][]string
	NoPortfolio bool
	// Goroutines enables the cooperative scheduler (go statements, blocking
	// channel operations). SchedNondet makes scheduling and select choices
	// nondeterministic (explored); SchedPreempt is the number of voluntary
	// preemptions at synchronisation points that are explored per path.
	Goroutines          bool
	SchedNondet         bool
	SelectNondet        bool // only the choice among ready select cases is explored
	SchedPreempt        int
	DeadlockIsViolation bool
	// NoOps lists function-name prefixes whose calls return zero values.
	NoOps []string
	// DropGo lists functions whose `go` statements are ignored.
	DropGo []string
	// InitPkgs lists package path prefixes whose init is run lazily on first
	// touch of one of their globals.
	InitPkgs []string
	// NoInitPkgs are excluded even if they match InitPkgs.
	NoInitPkgs []string
}

type runtimeErr string

func (e runtimeErr) Error() string { return string(e) }

type wild struct{}
type wildDeref struct{ msg string }

func isControlPanic(r interface{}) bool {
	switch r.(type) {
	case killPath, budgetExceeded, unsupported, wildDeref, harnessStop, abortGor, deadlock:
		return true
	}
	return false
}

type harnessStop struct{ why string }

func debugStack() string { return string(debug.Stack()) }

// nativeFn is a function value implemented by the engine.
type nativeFn struct {
	name string
	fn   func(fr *frame, args []value) value
}

func needsSymBinop(x, y value) bool {
	switch x.(type) {
	case sym, uptr, symstr:
		return true
	}
	switch y.(type) {
	case sym, uptr, symstr:
		return true
	}
	return false
}

// copyVal copies aggregate values (structs, arrays) so that two memory
// cells never share storage.
func copyVal(v value) value {
	switch x := v.(type) {
	case structure:
		c := make(structure, len(x))
		for i := range x {
			c[i] = copyVal(x[i])
		}
		return c
	case array:
		c := make(array, len(x))
		for i := range x {
			c[i] = copyVal(x[i])
		}
		return c
	}
	return v
}

func (i *interpreter) posString(pos token.Pos, fr *frame) string {
	if pos == token.NoPos {
		if fr != nil {
			return fr.fn.String()
		}
		return "?"
	}
	p := i.prog.Fset.Position(pos)
	f := p.Filename
	if k := strings.LastIndex(f, "/"); k >= 0 {
		if k2 := strings.LastIndex(f[:k], "/"); k2 >= 0 {
			f = f[k2+1:]
		}
	}
	return fmt.Sprintf("%s:%d", f, p.Line)
}

func (i *interpreter) step(fr *frame, instr ssa.Instruction) {
	i.px.steps++
	if i.px.steps > i.cfg.MaxSteps {
		where := fr.fn.String() + " at " + i.posString(instr.Pos(), fr)
		for c, d := fr.caller, 0; c != nil && d < 6; c, d = c.caller, d+1 {
			where += " < " + c.fn.String()
		}
		panic(budgetExceeded{fmt.Sprintf("more than %d instructions on one path (in %s)", i.cfg.MaxSteps, where)})
	}
	if i.cfg.Trace {
		if v, ok := instr.(ssa.Value); ok {
			fmt.Fprintf(os.Stderr, "  %s: %s = %s\n", i.posString(instr.Pos(), fr), v.Name(), instr)
		} else {
			fmt.Fprintf(os.Stderr, "  %s: %s\n", i.posString(instr.Pos(), fr), instr)
		}
	}
}

func (i *interpreter) noteFunc(fn *ssa.Function) {
	if fn.Pkg != nil || fn.Parent() != nil || fn.Origin() != nil {
		i.px.res.funcs[fn.String()] = true
	}
}

// global returns the cell of a package-level variable, allocating it (and
// running its package's initialiser if configured) on first touch.
func (i *interpreter) global(g *ssa.Global) *value {
	if r, ok := i.globals[g]; ok {
		return r
	}
	cell := zero(mustDeref(g.Type()))
	i.globals[g] = &cell
	i.ensureInit(g.Pkg)
	return &cell
}

func (i *interpreter) wantInit(path string) bool {
	for _, p := range i.cfg.NoInitPkgs {
		if path == p {
			return false
		}
	}
	for _, p := range i.cfg.InitPkgs {
		if path == p || strings.HasSuffix(p, "/...") && strings.HasPrefix(path, strings.TrimSuffix(p, "...")) {
			return true
		}
	}
	return false
}

func (i *interpreter) ensureInit(pkg *ssa.Package) {
	if pkg == nil || i.initRun[pkg] {
		return
	}
	i.initRun[pkg] = true
	if !i.wantInit(pkg.Pkg.Path()) {
		return
	}
	initFn := pkg.Func("init")
	if initFn == nil || initFn.Blocks == nil {
		return
	}
	i.initDirect = initFn
	call(i, nil, token.NoPos, initFn, nil)
}

// concreteInt returns v as a concrete integer, case-splitting a symbolic
// value over [lo,hi]; values outside that range abort the path as
// unsupported (symbolic sizes are always given explicit small ranges by the
// harness).
func (i *interpreter) concreteInt(v value, lo, hi int64, why string) int64 {
	s, ok := v.(sym)
	if !ok {
		return asInt64(v)
	}
	if !i.px.inRange(s, lo, hi, why+" in range") {
		panic(unsupported{fmt.Sprintf("%s: symbolic value outside [%d,%d]", why, lo, hi)})
	}
	return i.px.choose(s, lo, hi, true, why)
}

// indexInt resolves an index into an object of length n: out-of-range is the
// Go panic, in-range is case-split.
func (i *interpreter) indexInt(v value, n int) int64 {
	s, ok := v.(sym)
	if !ok {
		return asInt64(v)
	}
	if n == 0 || !i.px.inRange(s, 0, int64(n)-1, "index in range") {
		panic(runtimeErr(fmt.Sprintf("runtime error: index out of range [symbolic] with length %d", n)))
	}
	return i.px.choose(s, 0, int64(n)-1, true, "index")
}

func (i *interpreter) sliceBound(v value, lo, hi int64, why string) int64 {
	s, ok := v.(sym)
	if !ok {
		return asInt64(v)
	}
	if !i.px.inRange(s, lo, hi, why+" in range") {
		panic(runtimeErr("runtime error: slice bounds out of range [symbolic]"))
	}
	return i.px.choose(s, lo, hi, true, why)
}

func (i *interpreter) minmax(fn *ssa.Builtin, a, b value, isMin bool) value {
	if !isSym(a) && !isSym(b) {
		if isMin {
			return min(a, b)
		}
		return max(a, b)
	}
	t := fn.Type().(*types.Signature).Params().At(0).Type()
	op := token.LSS
	if !isMin {
		op = token.GTR
	}
	c := i.symBinop(op, t, a, b)
	return i.px.ite(c, a, b)
}

// ---------------------------------------------------------------------
// sequential channels

type channel struct {
	buf    []value
	cap    int
	closed bool
	i      *interpreter
	timer  bool // a timer channel: its tick may be observed at any later time
}

func (c *channel) send(v value) {
	if c != nil && c.i != nil && c.i.sched != nil {
		c.i.sched.send(c, v)
		return
	}
	if c == nil {
		panic(unsupported{"send on nil channel (would block forever)"})
	}
	if c.closed {
		panic(targetPanic{iface{}})
	}
	if len(c.buf) >= c.cap && c.cap > 0 || c.cap == 0 && len(c.buf) >= 1 {
		panic(unsupported{"channel send would block (no goroutine scheduler)"})
	}
	// an unbuffered channel is given one slot: the sequential engine lets
	// the sender proceed and the receiver pick the value up later.
	c.buf = append(c.buf, copyVal(v))
}

func (c *channel) canRecv() bool { return c != nil && (len(c.buf) > 0 || c.closed) }
func (c *channel) canSend() bool {
	return c != nil && !c.closed && (len(c.buf) < c.cap || c.cap == 0 && len(c.buf) == 0)
}

func (c *channel) recv() (value, bool) {
	if c != nil && c.i != nil && c.i.sched != nil {
		return c.i.sched.recv(c)
	}
	if c == nil {
		panic(unsupported{"receive on nil channel (would block forever)"})
	}
	if len(c.buf) > 0 {
		v := c.buf[0]
		c.buf = c.buf[1:]
		return v, true
	}
	if c.closed {
		return nil, false
	}
	panic(unsupported{"channel receive would block (no goroutine scheduler)"})
}

func (c *channel) close() {
	if c.i != nil && c.i.sched != nil {
		c.i.sched.closeChan(c)
		return
	}
	if c.closed {
		panic(runtimeErr("close of closed channel"))
	}
	c.closed = true
}

func (i *interpreter) doSelect(fr *frame, instr *ssa.Select) value {
	if i.sched != nil {
		return i.sched.selectOp(fr, instr)
	}
	chosen := -1
	for k, st := range instr.States {
		ch, _ := fr.get(st.Chan).(*channel)
		if st.Dir == types.RecvOnly {
			if ch.canRecv() {
				chosen = k
				break
			}
		} else if ch.canSend() {
			chosen = k
			break
		}
	}
	if chosen < 0 && instr.Blocking {
		panic(unsupported{"select would block (no goroutine scheduler) at " + i.posString(instr.Pos(), fr)})
	}
	var recvOk bool
	var recv value
	if chosen >= 0 {
		st := instr.States[chosen]
		ch := fr.get(st.Chan).(*channel)
		if st.Dir == types.RecvOnly {
			recv, recvOk = ch.recv()
		} else {
			ch.send(fr.get(st.Send))
		}
	}
	r := tuple{chosen, recvOk}
	for k, st := range instr.States {
		if st.Dir == types.RecvOnly {
			var v value
			if k == chosen && recvOk {
				v = recv
			} else {
				v = zero(st.Chan.Type().Underlying().(*types.Chan).Elem())
			}
			r = append(r, v)
		}
	}
	return r
}

func (i *interpreter) goStmt(fr *frame, instr *ssa.Go, fn value, args []value) {
	name := ""
	switch f := fn.(type) {
	case *ssa.Function:
		name = f.String()
	case *closure:
		name = f.Fn.String()
	}
	for _, d := range i.cfg.DropGo {
		if d == name || strings.HasSuffix(d, "*") && strings.HasPrefix(name, strings.TrimSuffix(d, "*")) {
			return
		}
	}
	if i.sched != nil {
		i.sched.spawn(fn, args, name)
		return
	}
	panic(unsupported{"go statement (" + name + ") at " + i.posString(instr.Pos(), fr)})
}

// codePointer returns a stable address standing for the code of fn.
func (i *interpreter) codePointer(fn *ssa.Function) *value {
	if i.codePtrs == nil {
		i.codePtrs = map[*ssa.Function]*value{}
	}
	if p, ok := i.codePtrs[fn]; ok {
		return p
	}
	c := value(fn)
	i.codePtrs[fn] = &c
	return &c
}
