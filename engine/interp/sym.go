package interp

// Symbolic scalar values and their SMT-LIB2 encodings.

import (
	"fmt"
	"go/token"
	"go/types"
	"math"
	"strconv"
	"strings"
)

type skind int

const (
	kBool skind = iota
	kBV         // fixed-width bit-vector, Go wrap-around semantics
	kInt        // mathematical integer (int-mode)
	kFP         // IEEE float (w = 32 or 64)
)

// sym is a symbolic scalar: a solver term of the given sort.
type sym struct {
	k skind
	w int    // bit width for kBV / kFP
	t string // SMT-LIB term (a name or a literal)
}

func (s sym) String() string { return "sym<" + s.t + ">" }

func isSym(v value) bool {
	_, ok := v.(sym)
	return ok
}

func (s sym) sort() string {
	switch s.k {
	case kBool:
		return "Bool"
	case kBV:
		return fmt.Sprintf("(_ BitVec %d)", s.w)
	case kInt:
		return "Int"
	case kFP:
		if s.w == 32 {
			return "(_ FloatingPoint 8 24)"
		}
		return "(_ FloatingPoint 11 53)"
	}
	panic("bad sort")
}

// basicInfo describes how a Go basic type is encoded.
func basicInfo(t types.Type) (k skind, w int, signed bool, ok bool) {
	b, isb := t.Underlying().(*types.Basic)
	if !isb {
		return 0, 0, false, false
	}
	switch b.Kind() {
	case types.Bool, types.UntypedBool:
		return kBool, 0, false, true
	case types.Int, types.Int64, types.UntypedInt:
		return kBV, 64, true, true
	case types.Int8:
		return kBV, 8, true, true
	case types.Int16:
		return kBV, 16, true, true
	case types.Int32, types.UntypedRune:
		return kBV, 32, true, true
	case types.Uint, types.Uint64, types.Uintptr:
		return kBV, 64, false, true
	case types.Uint8:
		return kBV, 8, false, true
	case types.Uint16:
		return kBV, 16, false, true
	case types.Uint32:
		return kBV, 32, false, true
	case types.Float32:
		return kFP, 32, true, true
	case types.Float64, types.UntypedFloat:
		return kFP, 64, true, true
	}
	return 0, 0, false, false
}

func bvLit(u uint64, w int) string {
	if w < 64 {
		u &= (uint64(1) << uint(w)) - 1
	}
	return fmt.Sprintf("(_ bv%d %d)", u, w)
}

func intLit(v int64) string {
	if v < 0 {
		if v == math.MinInt64 {
			return "(- 9223372036854775808)"
		}
		return fmt.Sprintf("(- %d)", -v)
	}
	return strconv.FormatInt(v, 10)
}

// concInfo returns the encoding of a concrete scalar.
func concInfo(v value) (k skind, w int, signed bool, u uint64, ok bool) {
	switch x := v.(type) {
	case bool:
		if x {
			return kBool, 0, false, 1, true
		}
		return kBool, 0, false, 0, true
	case int:
		return kBV, 64, true, uint64(x), true
	case int8:
		return kBV, 8, true, uint64(x), true
	case int16:
		return kBV, 16, true, uint64(x), true
	case int32:
		return kBV, 32, true, uint64(x), true
	case int64:
		return kBV, 64, true, uint64(x), true
	case uint:
		return kBV, 64, false, uint64(x), true
	case uint8:
		return kBV, 8, false, uint64(x), true
	case uint16:
		return kBV, 16, false, uint64(x), true
	case uint32:
		return kBV, 32, false, uint64(x), true
	case uint64:
		return kBV, 64, false, x, true
	case uintptr:
		return kBV, 64, false, uint64(x), true
	case float32:
		return kFP, 32, true, uint64(math.Float32bits(x)), true
	case float64:
		return kFP, 64, true, math.Float64bits(x), true
	}
	return 0, 0, false, 0, false
}

// toSym turns a concrete scalar into a literal term of sort like.k.
func toSym(v value, like sym) sym {
	if s, ok := v.(sym); ok {
		return s
	}
	k, w, signed, u, ok := concInfo(v)
	if !ok {
		panic(unsupported{fmt.Sprintf("cannot encode %T as a term", v)})
	}
	switch k {
	case kBool:
		if u == 1 {
			return sym{kBool, 0, "true"}
		}
		return sym{kBool, 0, "false"}
	case kBV:
		if like.k == kInt {
			if signed {
				sx := int64(u)
				switch w {
				case 8:
					sx = int64(int8(u))
				case 16:
					sx = int64(int16(u))
				case 32:
					sx = int64(int32(u))
				}
				return sym{kInt, 0, intLit(sx)}
			}
			return sym{kInt, 0, strconv.FormatUint(u, 10)}
		}
		return sym{kBV, w, bvLit(u, w)}
	case kFP:
		if w == 32 {
			return sym{kFP, 32, fmt.Sprintf("((_ to_fp 8 24) #x%08x)", uint32(u))}
		}
		return sym{kFP, 64, fmt.Sprintf("((_ to_fp 11 53) #x%016x)", u)}
	}
	panic("unreachable")
}

// unsupported is the panic value for constructs outside the engine's reach.
type unsupported struct{ msg string }

func (u unsupported) Error() string { return "unsupported: " + u.msg }

// goTypeValue converts a model value (uint64 bits) into the Go value of
// basic type t (used by Concrete and the concretising case splits).
func goTypeValue(t types.Type, u uint64) value {
	b := t.Underlying().(*types.Basic)
	switch b.Kind() {
	case types.Bool:
		return u != 0
	case types.Int, types.UntypedInt:
		return int(u)
	case types.Int8:
		return int8(u)
	case types.Int16:
		return int16(u)
	case types.Int32:
		return int32(u)
	case types.Int64:
		return int64(u)
	case types.Uint:
		return uint(u)
	case types.Uint8:
		return uint8(u)
	case types.Uint16:
		return uint16(u)
	case types.Uint32:
		return uint32(u)
	case types.Uint64:
		return uint64(u)
	case types.Uintptr:
		return uintptr(u)
	}
	panic(unsupported{"goTypeValue " + t.String()})
}

// ---------------------------------------------------------------------
// operations

func (px *pathCtx) mk(k skind, w int, expr string) sym {
	s := sym{k, w, ""}
	s.t = px.define(s.sort(), expr)
	return s
}

func (px *pathCtx) mkBool(expr string) sym { return px.mk(kBool, 0, expr) }

func (px *pathCtx) not(c sym) sym {
	if c.t == "true" {
		return sym{kBool, 0, "false"}
	}
	if c.t == "false" {
		return sym{kBool, 0, "true"}
	}
	return px.mkBool("(not " + c.t + ")")
}

// boolSym converts a bool-or-sym value into a sym.
func boolSym(v value) sym {
	switch x := v.(type) {
	case sym:
		return x
	case bool:
		if x {
			return sym{kBool, 0, "true"}
		}
		return sym{kBool, 0, "false"}
	}
	panic(fmt.Sprintf("boolSym: %T", v))
}

func (px *pathCtx) and(a, b value) value {
	if x, ok := a.(bool); ok {
		if !x {
			return false
		}
		return b
	}
	if y, ok := b.(bool); ok {
		if !y {
			return false
		}
		return a
	}
	return px.mkBool("(and " + a.(sym).t + " " + b.(sym).t + ")")
}

func (px *pathCtx) or(a, b value) value {
	if x, ok := a.(bool); ok {
		if x {
			return true
		}
		return b
	}
	if y, ok := b.(bool); ok {
		if y {
			return true
		}
		return a
	}
	return px.mkBool("(or " + a.(sym).t + " " + b.(sym).t + ")")
}

func (px *pathCtx) notv(a value) value {
	if x, ok := a.(bool); ok {
		return !x
	}
	return px.not(a.(sym))
}

// ite builds if-then-else over scalar values of one Go type.
func (px *pathCtx) ite(c value, a, b value) value {
	if x, ok := c.(bool); ok {
		if x {
			return a
		}
		return b
	}
	if !isSym(a) && !isSym(b) {
		if equalsConcreteScalar(a, b) {
			return a
		}
	}
	var like sym
	if s, ok := a.(sym); ok {
		like = s
	} else if s, ok := b.(sym); ok {
		like = s
	} else {
		k, w, _, _, ok := concInfo(a)
		if !ok {
			panic(unsupported{fmt.Sprintf("ite over %T", a)})
		}
		like = sym{k, w, ""}
	}
	sa, sb := toSym(a, like), toSym(b, like)
	return px.mk(sa.k, sa.w, "(ite "+c.(sym).t+" "+sa.t+" "+sb.t+")")
}

func equalsConcreteScalar(a, b value) bool {
	defer func() { recover() }()
	return a == b
}

var bvOps = map[token.Token][2]string{ // [signed, unsigned]
	token.ADD:     {"bvadd", "bvadd"},
	token.SUB:     {"bvsub", "bvsub"},
	token.MUL:     {"bvmul", "bvmul"},
	token.QUO:     {"bvsdiv", "bvudiv"},
	token.REM:     {"bvsrem", "bvurem"},
	token.AND:     {"bvand", "bvand"},
	token.OR:      {"bvor", "bvor"},
	token.XOR:     {"bvxor", "bvxor"},
	token.LSS:     {"bvslt", "bvult"},
	token.LEQ:     {"bvsle", "bvule"},
	token.GTR:     {"bvsgt", "bvugt"},
	token.GEQ:     {"bvsge", "bvuge"},
}

var intOps = map[token.Token]string{
	token.ADD: "+", token.SUB: "-", token.MUL: "*",
	token.LSS: "<", token.LEQ: "<=", token.GTR: ">", token.GEQ: ">=",
}

var fpOps = map[token.Token]string{
	token.ADD: "fp.add RNE", token.SUB: "fp.sub RNE", token.MUL: "fp.mul RNE", token.QUO: "fp.div RNE",
	token.LSS: "fp.lt", token.LEQ: "fp.leq", token.GTR: "fp.gt", token.GEQ: "fp.geq",
}

func isCmp(op token.Token) bool {
	switch op {
	case token.LSS, token.LEQ, token.GTR, token.GEQ, token.EQL, token.NEQ:
		return true
	}
	return false
}

// symBinop implements a binary operator when at least one operand is
// symbolic. t is the static type of x.
func (i *interpreter) symBinop(op token.Token, t types.Type, x, y value) value {
	px := i.px
	if _, ok := x.(symstr); ok {
		return i.symstrBinop(op, x, y)
	}
	if _, ok := y.(symstr); ok {
		return i.symstrBinop(op, x, y)
	}
	// pointer-model values
	if _, ok := x.(uptr); ok {
		return i.uptrBinop(op, x, y)
	}
	if _, ok := y.(uptr); ok {
		return i.uptrBinop(op, x, y)
	}
	_, _, signed, ok := basicInfo(t)
	if !ok {
		// comparison of compound values
		switch op {
		case token.EQL:
			return i.symEquals(t, x, y)
		case token.NEQ:
			return px.notv(i.symEquals(t, x, y))
		}
		panic(unsupported{fmt.Sprintf("symbolic binop %s on %s", op, t)})
	}
	if op == token.SHL || op == token.SHR {
		return i.symShift(op, t, x, y, signed)
	}
	var like sym
	if s, ok := x.(sym); ok {
		like = s
	} else {
		like = y.(sym)
	}
	sx, sy := toSym(x, like), toSym(y, like)
	if sx.k == kInt && sy.k != kInt {
		sy = px.toInt(sy, signed)
	} else if sy.k == kInt && sx.k != kInt {
		sx = px.toInt(sx, signed)
	}
	switch sx.k {
	case kBool:
		switch op {
		case token.EQL:
			return px.mkBool("(= " + sx.t + " " + sy.t + ")")
		case token.NEQ:
			return px.mkBool("(not (= " + sx.t + " " + sy.t + "))")
		}
	case kBV:
		switch op {
		case token.EQL:
			return px.mkBool("(= " + sx.t + " " + sy.t + ")")
		case token.NEQ:
			return px.mkBool("(not (= " + sx.t + " " + sy.t + "))")
		case token.AND_NOT:
			return px.mk(kBV, sx.w, "(bvand "+sx.t+" (bvnot "+sy.t+"))")
		case token.QUO, token.REM:
			i.divCheck(sy)
		}
		names, ok := bvOps[op]
		if !ok {
			break
		}
		name := names[0]
		if !signed {
			name = names[1]
		}
		e := "(" + name + " " + sx.t + " " + sy.t + ")"
		if isCmp(op) {
			return px.mkBool(e)
		}
		return px.mk(kBV, sx.w, e)
	case kInt:
		switch op {
		case token.EQL:
			return px.mkBool("(= " + sx.t + " " + sy.t + ")")
		case token.NEQ:
			return px.mkBool("(not (= " + sx.t + " " + sy.t + "))")
		case token.QUO, token.REM:
			i.divCheck(sy)
			// Go truncated division from SMT floor/euclidean div on magnitudes.
			ax := "(ite (>= " + sx.t + " 0) " + sx.t + " (- " + sx.t + "))"
			ay := "(ite (>= " + sy.t + " 0) " + sy.t + " (- " + sy.t + "))"
			q := px.mk(kInt, 0, "(div "+ax+" "+ay+")")
			sameSign := "(= (>= " + sx.t + " 0) (>= " + sy.t + " 0))"
			tq := px.mk(kInt, 0, "(ite "+sameSign+" "+q.t+" (- "+q.t+"))")
			if op == token.QUO {
				return tq
			}
			return px.mk(kInt, 0, "(- "+sx.t+" (* "+sy.t+" "+tq.t+"))")
		}
		name, ok := intOps[op]
		if !ok {
			break
		}
		e := "(" + name + " " + sx.t + " " + sy.t + ")"
		if isCmp(op) {
			return px.mkBool(e)
		}
		r := px.mk(kInt, 0, e)
		px.intRange(r, t)
		return r
	case kFP:
		switch op {
		case token.EQL:
			return px.mkBool("(fp.eq " + sx.t + " " + sy.t + ")")
		case token.NEQ:
			return px.mkBool("(not (fp.eq " + sx.t + " " + sy.t + "))")
		}
		name, ok := fpOps[op]
		if !ok {
			break
		}
		e := "(" + name + " " + sx.t + " " + sy.t + ")"
		if isCmp(op) {
			return px.mkBool(e)
		}
		return px.mk(kFP, sx.w, e)
	}
	panic(unsupported{fmt.Sprintf("symbolic binop %s on %s (%v)", op, t, sx.k)})
}

// toInt converts a BV term into an Int term.
func (px *pathCtx) toInt(s sym, signed bool) sym {
	if s.k == kInt {
		return s
	}
	if s.k != kBV {
		panic(unsupported{"toInt of non-BV"})
	}
	u := "(bv2nat " + s.t + ")"
	if !signed {
		return px.mk(kInt, 0, u)
	}
	half := new(strings.Builder)
	fmt.Fprintf(half, "%d", uint64(1)<<uint(s.w-1))
	full := "18446744073709551616"
	if s.w < 64 {
		full = strconv.FormatUint(uint64(1)<<uint(s.w), 10)
	}
	return px.mk(kInt, 0, "(ite (< "+u+" "+half.String()+") "+u+" (- "+u+" "+full+"))")
}

// intRange records the obligation that an int-mode result fits its Go type.
func (px *pathCtx) intRange(r sym, t types.Type) {
	_, w, signed, ok := basicInfo(t)
	if !ok || w == 0 {
		w, signed = 64, true
	}
	var lo, hi string
	if signed {
		lo = intLit(-(int64(1) << uint(w-1)))
		if w == 64 {
			lo = "(- 9223372036854775808)"
			hi = "9223372036854775807"
		} else {
			hi = intLit(int64(1)<<uint(w-1) - 1)
		}
	} else {
		lo = "0"
		if w == 64 {
			hi = "18446744073709551615"
		} else {
			hi = strconv.FormatUint(uint64(1)<<uint(w)-1, 10)
		}
	}
	px.ranges = append(px.ranges, "(and (<= "+lo+" "+r.t+") (<= "+r.t+" "+hi+"))")
}

// divCheck forks on a zero divisor: the zero side panics like Go does.
func (i *interpreter) divCheck(d sym) {
	px := i.px
	var z string
	if d.k == kInt {
		z = "(= " + d.t + " 0)"
	} else {
		z = "(= " + d.t + " " + bvLit(0, d.w) + ")"
	}
	if px.branch(px.mkBool(z), "div-by-zero") {
		panic(runtimeErr("runtime error: integer divide by zero"))
	}
}

func (i *interpreter) symShift(op token.Token, t types.Type, x, y value, signed bool) value {
	px := i.px
	var sx sym
	if s, ok := x.(sym); ok {
		sx = s
	} else {
		_, w, _, _ := basicInfo(t)
		sx = toSym(x, sym{kBV, w, ""})
	}
	if sx.k == kInt {
		// only constant shifts in int-mode
		if isSym(y) {
			panic(unsupported{"int-mode shift by symbolic count"})
		}
		n := asUint64Any(y)
		if n > 62 {
			panic(unsupported{"int-mode shift count too large"})
		}
		p := strconv.FormatUint(uint64(1)<<n, 10)
		if op == token.SHL {
			r := px.mk(kInt, 0, "(* "+sx.t+" "+p+")")
			px.intRange(r, t)
			return r
		}
		return px.mk(kInt, 0, "(div "+sx.t+" "+p+")") // floor = arithmetic shift
	}
	w := sx.w
	var cnt string
	if sy, ok := y.(sym); ok {
		if sy.k != kBV {
			panic(unsupported{"shift count sort"})
		}
		switch {
		case sy.w == w:
			cnt = sy.t
		case sy.w < w:
			cnt = fmt.Sprintf("((_ zero_extend %d) %s)", w-sy.w, sy.t)
		default:
			cnt = fmt.Sprintf("(ite (bvuge %s %s) %s ((_ extract %d 0) %s))", sy.t, bvLit(uint64(w), sy.w), bvLit(uint64(w), w), w-1, sy.t)
		}
	} else {
		n := asUint64Any(y)
		if n > uint64(w) {
			n = uint64(w)
		}
		cnt = bvLit(n, w)
	}
	name := "bvshl"
	if op == token.SHR {
		name = "bvlshr"
		if signed {
			name = "bvashr"
		}
	}
	return px.mk(kBV, w, "("+name+" "+sx.t+" "+cnt+")")
}

func asUint64Any(v value) uint64 {
	_, _, _, u, ok := concInfo(v)
	if !ok {
		panic(fmt.Sprintf("asUint64Any %T", v))
	}
	return u
}

func (i *interpreter) symUnop(op token.Token, t types.Type, x sym) value {
	px := i.px
	switch op {
	case token.NOT:
		return px.not(x)
	case token.SUB:
		switch x.k {
		case kBV:
			return px.mk(kBV, x.w, "(bvneg "+x.t+")")
		case kInt:
			r := px.mk(kInt, 0, "(- "+x.t+")")
			px.intRange(r, t)
			return r
		case kFP:
			return px.mk(kFP, x.w, "(fp.neg "+x.t+")")
		}
	case token.XOR:
		if x.k == kBV {
			return px.mk(kBV, x.w, "(bvnot "+x.t+")")
		}
	}
	panic(unsupported{fmt.Sprintf("symbolic unop %s on %v", op, x.k)})
}

// symConv converts symbolic x from t_src to t_dst.
func (i *interpreter) symConv(t_dst, t_src types.Type, x sym) value {
	px := i.px
	dk, dw, _, dok := basicInfo(t_dst)
	_, _, ssigned, sok := basicInfo(t_src)
	if !dok || !sok {
		panic(unsupported{fmt.Sprintf("symbolic conversion %s -> %s", t_src, t_dst)})
	}
	switch x.k {
	case kBool:
		return x
	case kInt:
		if dk == kBV {
			// stay in int-mode; range obligation for the destination type
			px.intRange(x, t_dst)
			return x
		}
	case kBV:
		switch dk {
		case kBV:
			switch {
			case dw == x.w:
				return x
			case dw < x.w:
				return px.mk(kBV, dw, fmt.Sprintf("((_ extract %d 0) %s)", dw-1, x.t))
			case ssigned:
				return px.mk(kBV, dw, fmt.Sprintf("((_ sign_extend %d) %s)", dw-x.w, x.t))
			default:
				return px.mk(kBV, dw, fmt.Sprintf("((_ zero_extend %d) %s)", dw-x.w, x.t))
			}
		case kFP:
			eb, sb := 11, 53
			if dw == 32 {
				eb, sb = 8, 24
			}
			fn := "to_fp"
			if !ssigned {
				fn = "to_fp_unsigned"
			}
			return px.mk(kFP, dw, fmt.Sprintf("((_ %s %d %d) RNE %s)", fn, eb, sb, x.t))
		}
	case kFP:
		switch dk {
		case kFP:
			if dw == x.w {
				return x
			}
			eb, sb := 11, 53
			if dw == 32 {
				eb, sb = 8, 24
			}
			return px.mk(kFP, dw, fmt.Sprintf("((_ to_fp %d %d) RNE %s)", eb, sb, x.t))
		case kBV:
			_, _, dsigned, _ := basicInfo(t_dst)
			fn := "fp.to_sbv"
			if !dsigned {
				fn = "fp.to_ubv"
			}
			return px.mk(kBV, dw, fmt.Sprintf("((_ %s %d) RTZ %s)", fn, dw, x.t))
		}
	}
	panic(unsupported{fmt.Sprintf("symbolic conversion %s -> %s", t_src, t_dst)})
}

// symEquals is equals() for values that may contain symbolic scalars; the
// result is a bool or a Bool term.
func (i *interpreter) symEquals(t types.Type, x, y value) value {
	px := i.px
	if _, ok := x.(symstr); ok {
		return i.symstrBinop(token.EQL, x, y)
	}
	if _, ok := y.(symstr); ok {
		return i.symstrBinop(token.EQL, x, y)
	}
	if sx, ok := x.(sym); ok {
		return i.symBinopScalarEq(t, sx, y)
	}
	if sy, ok := y.(sym); ok {
		return i.symBinopScalarEq(t, sy, x)
	}
	switch x := x.(type) {
	case structure:
		y := y.(structure)
		st := t.Underlying().(*types.Struct)
		var acc value = true
		for k := 0; k < st.NumFields(); k++ {
			if st.Field(k).Name() == "_" {
				continue
			}
			acc = px.and(acc, i.symEquals(st.Field(k).Type(), x[k], y[k]))
			if b, ok := acc.(bool); ok && !b {
				return false
			}
		}
		return acc
	case array:
		y := y.(array)
		et := t.Underlying().(*types.Array).Elem()
		var acc value = true
		for k := range x {
			acc = px.and(acc, i.symEquals(et, x[k], y[k]))
			if b, ok := acc.(bool); ok && !b {
				return false
			}
		}
		return acc
	case iface:
		y := y.(iface)
		if !sameType(x.t, y.t) {
			return false
		}
		if x.t == nil {
			return true
		}
		return i.symEquals(x.t, x.v, y.v)
	}
	return equals(t, x, y)
}

func (i *interpreter) symBinopScalarEq(t types.Type, s sym, o value) value {
	px := i.px
	so := toSym(o, s)
	if s.k == kInt && so.k == kBV {
		_, _, signed, _ := basicInfo(t)
		so = px.toInt(so, signed)
	}
	if s.k == kFP {
		return px.mkBool("(fp.eq " + s.t + " " + so.t + ")")
	}
	return px.mkBool("(= " + s.t + " " + so.t + ")")
}

// containsSym reports whether a (possibly compound) value has symbolic leaves.
func containsSym(v value) bool {
	switch x := v.(type) {
	case sym, symstr:
		return true
	case structure:
		for _, e := range x {
			if containsSym(e) {
				return true
			}
		}
	case array:
		for _, e := range x {
			if containsSym(e) {
				return true
			}
		}
	case iface:
		return containsSym(x.v)
	}
	return false
}

// symstr is a symbolic string atom with a concrete prefix: it stands for
// prefix + "\x01" + ('a'+id). Concrete strings never contain \x01, so
// equality is decided by (prefix, id).
type symstr struct {
	prefix string
	id     sym // BV8
}

func (s symstr) length() int { return len(s.prefix) + 2 }

func (i *interpreter) symstrBinop(op token.Token, x, y value) value {
	px := i.px
	sx, xok := x.(symstr)
	sy, yok := y.(symstr)
	switch op {
	case token.ADD:
		if yok && !xok {
			return symstr{prefix: x.(string) + sy.prefix, id: sy.id}
		}
		if xok && !yok && y.(string) == "" {
			return sx
		}
	case token.EQL, token.NEQ:
		var r value
		switch {
		case xok && yok:
			if sx.prefix != sy.prefix {
				r = false
			} else {
				r = px.mkBool("(= " + sx.id.t + " " + sy.id.t + ")")
			}
		default:
			r = false // a concrete string never equals an atom
		}
		if op == token.NEQ {
			return px.notv(r)
		}
		return r
	}
	panic(unsupported{fmt.Sprintf("string operation %s on a symbolic string atom", op)})
}

// fpFromBits builds the float with the given IEEE bit pattern and remembers
// the pattern so that Float64bits of it returns exactly those bits.
func (px *pathCtx) fpFromBits(b sym, w int) sym {
	eb, sb := 11, 53
	if w == 32 {
		eb, sb = 8, 24
	}
	f := px.mk(kFP, w, fmt.Sprintf("((_ to_fp %d %d) %s)", eb, sb, b.t))
	if px.fpBits == nil {
		px.fpBits = map[string]sym{}
	}
	px.fpBits[f.t] = b
	return f
}

// fpToBits returns the IEEE bits of a float term.
func (px *pathCtx) fpToBits(f sym) sym {
	if b, ok := px.fpBits[f.t]; ok {
		return b
	}
	eb, sb := 11, 53
	if f.w == 32 {
		eb, sb = 8, 24
	}
	px.nsym++
	b := sym{kBV, f.w, "fb" + strconv.Itoa(px.nsym)}
	px.emit("(declare-const " + b.t + " " + b.sort() + ")")
	px.assertTerm(fmt.Sprintf("(= %s ((_ to_fp %d %d) %s))", f.t, eb, sb, b.t))
	if px.fpBits == nil {
		px.fpBits = map[string]sym{}
	}
	px.fpBits[f.t] = b
	return b
}
