package interp

// Deterministic (insertion-ordered) maps: replay-based exploration needs
// the same iteration order on every re-execution of a path prefix.

import (
	"go/types"
)

type oentry struct {
	k, v    value
	deleted bool
}

type omap struct {
	keyType types.Type
	index   map[int][]int // hash -> entry indices
	entries []oentry
	n       int
	i       *interpreter
	symKeys bool // some key contains symbolic scalars: lookups scan and fork on equality
}

func makeMap(kt types.Type, reserve int64) value {
	return &omap{keyType: kt, index: map[int][]int{}}
}

func (m *omap) find(k value) int {
	if m == nil {
		return -1
	}
	if m.symKeys || containsSym(k) {
		if m.i == nil {
			panic(unsupported{"symbolic map key in a map created outside the interpreter"})
		}
		for idx := range m.entries {
			e := &m.entries[idx]
			if e.deleted {
				continue
			}
			switch eq := m.i.symEquals(m.keyType, e.k, k).(type) {
			case bool:
				if eq {
					return idx
				}
			case sym:
				if m.i.px.branch(eq, "map key equality") {
					return idx
				}
			}
		}
		return -1
	}
	h := hash(m.keyType, m.keyType, k)
	for _, idx := range m.index[h] {
		e := &m.entries[idx]
		if !e.deleted && equals(m.keyType, e.k, k) {
			return idx
		}
	}
	return -1
}

func (m *omap) lookup(k value) (value, bool) {
	if idx := m.find(k); idx >= 0 {
		return m.entries[idx].v, true
	}
	return nil, false
}

func (m *omap) insert(k, v value) {
	if idx := m.find(k); idx >= 0 {
		m.entries[idx].v = copyVal(v)
		return
	}
	if containsSym(k) {
		m.symKeys = true
	} else {
		h := hash(m.keyType, m.keyType, k)
		m.index[h] = append(m.index[h], len(m.entries))
	}
	m.entries = append(m.entries, oentry{k: copyVal(k), v: copyVal(v)})
	m.n++
}

func (m *omap) delete(k value) {
	if idx := m.find(k); idx >= 0 {
		m.entries[idx].deleted = true
		m.n--
	}
}

func (m *omap) len() int {
	if m == nil {
		return 0
	}
	return m.n
}

type omapIter struct {
	m   *omap
	pos int
}

func (it *omapIter) next() tuple {
	if it.m != nil {
		for it.pos < len(it.m.entries) {
			e := it.m.entries[it.pos]
			it.pos++
			if !e.deleted {
				return []value{true, e.k, e.v}
			}
		}
	}
	return []value{false, nil, nil}
}

// hashable is kept for the values that define their own hash/eq.
type hashable interface {
	hash(t types.Type) int
	eq(t types.Type, x interface{}) bool
}
