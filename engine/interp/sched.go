package interp

// Cooperative goroutine scheduler (opt-in per harness: Config.Goroutines).
//
// Interpreted goroutines run on real Go goroutines but only the one holding
// the baton executes. Control changes hands only at synchronisation points
// (channel operations, select, mutex/WaitGroup/Cond waits, goroutine exit).
// When several goroutines are runnable at such a point, the next one is a
// solver-free nondeterministic choice recorded in the decision vector, so the
// exploration covers the interleavings at synchronisation granularity within
// the decision budget. Data races between synchronisation points are NOT
// explored (the engine has no memory model).

import (
	"fmt"
	"strings"
	"go/token"
	"go/types"

	"golang.org/x/tools/go/ssa"
)

type selCase struct {
	ch   *channel
	send bool
	val  value
}

type gor struct {
	id     int
	resume chan bool // true: continue, false: abort (path is over)
	done   bool
	name   string
	// blocked in a channel operation / select: the registered cases
	sel []selCase
	// completion delivered by a peer
	woken    bool
	wokeCase int
	wokeVal  value
	wokeOk   bool
	// blocked on a predicate (mutex, WaitGroup, Cond)
	ready func() bool
	stack []*ssa.Function
}

type abortGor struct{}

type scheduler struct {
	i        *interpreter
	gs       []*gor
	cur      *gor
	main     *gor
	pending  interface{} // panic raised in a non-main goroutine, to re-raise in main
	switches int
	lastHandoff string
	hist []string
	preempts int
	exited   chan struct{}
	live     int
}

func (i *interpreter) schedOn() bool { return i.sched != nil }

func (i *interpreter) initSched() {
	s := &scheduler{i: i, exited: make(chan struct{}, 64)}
	m := &gor{id: 0, resume: make(chan bool, 1), name: "main"}
	s.gs = []*gor{m}
	s.cur, s.main = m, m
	i.sched = s
}

func (g *gor) runnable() bool {
	if g.done {
		return false
	}
	if g.sel != nil {
		return g.woken
	}
	if g.ready != nil {
		return g.ready()
	}
	return true
}

// spawn starts an interpreted goroutine; the spawner keeps the baton.
func (s *scheduler) spawn(fn value, args []value, name string) {
	g := &gor{id: len(s.gs), resume: make(chan bool, 1), name: name}
	s.gs = append(s.gs, g)
	s.live++
	i := s.i
	go func() {
		defer func() { s.exited <- struct{}{} }()
		if ok := <-g.resume; !ok {
			return
		}
		defer func() {
			r := recover()
			g.done = true
			if _, abort := r.(abortGor); abort {
				return
			}
			if r != nil && s.pending == nil {
				s.pending = r
			}
			// hand the baton on (to main if a panic is pending)
			s.cur = nil
			s.dispatch(g)
		}()
		i.stack = nil
		call(i, nil, token.NoPos, fn, args)
	}()
}

// dispatch gives the baton to another goroutine; called by a goroutine that
// cannot (or should not) continue. from is the caller (may be done).
func (s *scheduler) dispatch(from *gor) {
	var next *gor
	if s.pending != nil {
		next = s.main
	} else {
		var cands []*gor
		for _, g := range s.gs {
			if g != from && g.runnable() {
				cands = append(cands, g)
			}
		}
		if from != nil && !from.done && from.runnable() {
			cands = append(cands, from)
		}
		if len(cands) == 0 && s.fireTimers(false) {
			// time advances: a pending timer fires
			for _, g := range s.gs {
				if g != from && g.runnable() {
					cands = append(cands, g)
				}
			}
		}
		switch len(cands) {
		case 0:
			// deadlock: nobody can run. Report through main.
			s.pending = unsupported{"deadlock: all goroutines are blocked (" + s.describe() + ")"}
			if s.i.cfg.DeadlockIsViolation {
				s.pending = deadlock{s.describe()}
			}
			next = s.main
		case 1:
			next = cands[0]
		default:
			k := 0
			if s.i.cfg.SchedNondet {
				k = int(s.i.px.chooseFresh(s.i.px.fresh("sched", kBV, 64), 0, int64(len(cands)-1)))
			}
			next = cands[k]
		}
	}
	s.switches++
	if next == from {
		s.cur = from
		if from == s.main && s.pending != nil {
			p := s.pending
			s.pending = nil
			panic(p)
		}
		return
	}
	s.cur = next
	if from != nil {
		from.stack = s.i.stack
	}
	s.i.stack = next.stack
	// decide before handing the baton over: afterwards another goroutine runs
	exiting := from == nil || from.done
	s.handoff(next, "dispatch from "+gname(from))
	if exiting {
		return
	}
	if ok := <-from.resume; !ok {
		panic(abortGor{})
	}
	s.i.stack = from.stack
	s.cur = from
	if from == s.main && s.pending != nil {
		p := s.pending
		s.pending = nil
		panic(p)
	}
}

// switchTo hands the baton from cur (which stays runnable) to next.
func (s *scheduler) switchTo(cur, next *gor) {
	s.switches++
	s.cur = next
	cur.stack = s.i.stack
	s.i.stack = next.stack
	s.handoff(next, "switchTo from "+gname(cur))
	if ok := <-cur.resume; !ok {
		panic(abortGor{})
	}
	s.i.stack = cur.stack
	s.cur = cur
	if cur == s.main && s.pending != nil {
		p := s.pending
		s.pending = nil
		panic(p)
	}
}

type deadlock struct{ what string }

func (s *scheduler) describe() string {
	out := ""
	for _, g := range s.gs {
		if g.done {
			continue
		}
		st := "runnable"
		if g.sel != nil {
			st = fmt.Sprintf("blocked on %d channel case(s)", len(g.sel))
		} else if g.ready != nil {
			st = "blocked on a lock/wait"
		}
		out += fmt.Sprintf("%s#%d:%s ", g.name, g.id, st)
	}
	return out
}

// block parks the current goroutine until it is runnable again.
func (s *scheduler) block() {
	cur := s.cur
	for {
		s.dispatch(cur)
		if cur.runnable() {
			return
		}
	}
}

// yield is a preemption point at a synchronisation operation.
func (s *scheduler) yield() {
	if s.i.cfg.SchedPreempt <= 0 || s.switches >= s.i.cfg.SchedPreempt*8 {
		return
	}
	n := 0
	for _, g := range s.gs {
		if g != s.cur && g.runnable() {
			n++
		}
	}
	if n == 0 || s.preempts >= s.i.cfg.SchedPreempt {
		return
	}
	if s.i.px.chooseFresh(s.i.px.fresh("preempt", kBV, 64), 0, 1) == 1 {
		s.preempts++
		s.dispatch(s.cur)
	}
}

// shutdown aborts every goroutine still parked (called when main is done).
func (s *scheduler) shutdown() {
	s.hist = append(s.hist, "shutdown by "+gname(s.cur))
	for _, g := range s.gs {
		if g != s.main && !g.done {
			g.resume <- false
		}
	}
	for k := 0; k < s.live; k++ {
		<-s.exited
	}
	s.live = 0
}

// --- channel operations under the scheduler ---

func (s *scheduler) findPeer(ch *channel, wantSend bool) (*gor, int) {
	for _, g := range s.gs {
		if g == s.cur || g.done || g.woken || g.sel == nil {
			continue
		}
		for k, c := range g.sel {
			if c.ch == ch && c.send == wantSend {
				return g, k
			}
		}
	}
	return nil, -1
}

// trySend performs a send if it can complete now.
func (s *scheduler) trySend(ch *channel, v value) bool {
	if ch == nil {
		return false
	}
	if ch.closed {
		panic(runtimeErr("send on closed channel"))
	}
	if len(ch.buf) == 0 {
		if g, k := s.findPeer(ch, false); g != nil {
			g.woken, g.wokeCase, g.wokeVal, g.wokeOk = true, k, copyVal(v), true
			return true
		}
	}
	if len(ch.buf) < ch.cap {
		ch.buf = append(ch.buf, copyVal(v))
		return true
	}
	return false
}

// tryRecv performs a receive if it can complete now.
func (s *scheduler) tryRecv(ch *channel) (value, bool, bool) {
	if ch == nil {
		return nil, false, false
	}
	if len(ch.buf) > 0 {
		v := ch.buf[0]
		ch.buf = ch.buf[1:]
		// a blocked sender can now move its value into the buffer
		if g, k := s.findPeer(ch, true); g != nil {
			ch.buf = append(ch.buf, g.sel[k].val)
			g.woken, g.wokeCase = true, k
		}
		return v, true, true
	}
	if g, k := s.findPeer(ch, true); g != nil {
		v := g.sel[k].val
		g.woken, g.wokeCase = true, k
		return v, true, true
	}
	if ch.closed {
		return nil, false, true
	}
	return nil, false, false
}

func (s *scheduler) wait(cases []selCase) (int, value, bool) {
	cur := s.cur
	cur.sel, cur.woken = cases, false
	s.block()
	k, v, ok := cur.wokeCase, cur.wokeVal, cur.wokeOk
	cur.sel, cur.woken, cur.wokeVal = nil, false, nil
	return k, v, ok
}

func (s *scheduler) send(ch *channel, v value) {
	s.yield()
	if s.trySend(ch, v) {
		return
	}
	s.wait([]selCase{{ch: ch, send: true, val: copyVal(v)}})
}

func (s *scheduler) recv(ch *channel) (value, bool) {
	s.yield()
	if v, ok, done := s.tryRecv(ch); done {
		return v, ok
	}
	_, v, ok := s.wait([]selCase{{ch: ch}})
	return v, ok
}

func (s *scheduler) closeChan(ch *channel) {
	if ch.closed {
		panic(runtimeErr("close of closed channel"))
	}
	ch.closed = true
	for _, g := range s.gs {
		if g.done || g.woken || g.sel == nil {
			continue
		}
		for k, c := range g.sel {
			if c.ch == ch && !c.send {
				g.woken, g.wokeCase, g.wokeVal, g.wokeOk = true, k, nil, false
				break
			}
		}
	}
}

func (s *scheduler) selectOp(fr *frame, instr *ssa.Select) value {
	s.yield()
	var cases []selCase
	for _, st := range instr.States {
		ch, _ := fr.get(st.Chan).(*channel)
		c := selCase{ch: ch, send: st.Dir != types.RecvOnly}
		if c.send {
			c.val = copyVal(fr.get(st.Send))
		}
		cases = append(cases, c)
	}
	// which cases can complete now?
	var ready []int
	for k, c := range cases {
		if c.ch == nil {
			continue
		}
		if c.send {
			if c.ch.closed {
				ready = append(ready, k)
			} else if len(c.ch.buf) < c.ch.cap {
				ready = append(ready, k)
			} else if g, _ := s.findPeer(c.ch, false); g != nil && len(c.ch.buf) == 0 {
				ready = append(ready, k)
			}
		} else {
			if c.ch.timer && len(c.ch.buf) > 0 && s.i.cfg.SelectNondet {
				// a pending timer tick is observed now or later
				if s.i.px.chooseFresh(s.i.px.fresh("timerFires", kBV, 64), 0, 1) == 1 {
					ready = append(ready, k)
				}
			} else if len(c.ch.buf) > 0 || c.ch.closed {
				ready = append(ready, k)
			} else if g, _ := s.findPeer(c.ch, true); g != nil {
				ready = append(ready, k)
			}
		}
	}
	chosen, recvOk := -1, false
	var recv value
	switch {
	case len(ready) > 0:
		pick := 0
		if len(ready) > 1 && (s.i.cfg.SchedNondet || s.i.cfg.SelectNondet) {
			pick = int(s.i.px.chooseFresh(s.i.px.fresh("select", kBV, 64), 0, int64(len(ready)-1)))
		}
		chosen = ready[pick]
		c := cases[chosen]
		if c.send {
			if !s.trySend(c.ch, c.val) {
				panic("engine: select send not ready")
			}
		} else {
			recv, recvOk, _ = s.tryRecv(c.ch)
		}
	case !instr.Blocking:
		chosen = -1
	default:
		k, v, ok := s.wait(cases)
		chosen, recv, recvOk = k, v, ok
	}
	r := tuple{chosen, recvOk}
	for k, st := range instr.States {
		if st.Dir == types.RecvOnly {
			var v value
			if k == chosen && recvOk {
				v = recv
			} else {
				v = zero(st.Chan.Type().Underlying().(*types.Chan).Elem())
			}
			r = append(r, v)
		}
	}
	return r
}

// waitFor blocks the current goroutine until ready() holds.
func (s *scheduler) waitFor(ready func() bool) {
	if ready() {
		return
	}
	cur := s.cur
	cur.ready = ready
	s.block()
	cur.ready = nil
}

// fireTimers delivers pending timer ticks to goroutines blocked in a select
// on a timer channel. With nondet, each such delivery is a choice; without,
// the first one is delivered. It reports whether anything was delivered.
func (s *scheduler) fireTimers(nondet bool) bool {
	fired := false
	for _, g := range s.gs {
		if g.done || g.woken || g.sel == nil {
			continue
		}
		for k, c := range g.sel {
			if c.send || c.ch == nil || !c.ch.timer || len(c.ch.buf) == 0 {
				continue
			}
			if nondet && s.i.cfg.SelectNondet && s.i.px.chooseFresh(s.i.px.fresh("timerFires", kBV, 64), 0, 1) == 0 {
				continue
			}
			v := c.ch.buf[0]
			c.ch.buf = c.ch.buf[1:]
			g.woken, g.wokeCase, g.wokeVal, g.wokeOk = true, k, v, true
			fired = true
			break
		}
		if fired && !nondet {
			return true
		}
	}
	return fired
}

func gname(g *gor) string {
	if g == nil {
		return "<nil>"
	}
	return fmt.Sprintf("%s#%d(done=%v)", g.name, g.id, g.done)
}

// handoff passes the baton; a full resume buffer means two goroutines were
// about to run at once (an engine bug): fail loudly instead of hanging.
func (s *scheduler) handoff(next *gor, why string) {
	// all bookkeeping BEFORE the baton changes hands: afterwards the receiver
	// runs concurrently with the rest of this function.
	s.lastHandoff = why + " -> " + gname(next)
	s.hist = append(s.hist, s.lastHandoff)
	if len(s.hist) > 12 {
		s.hist = s.hist[1:]
	}
	select {
	case next.resume <- true:
	default:
		panic(unsupported{"engine scheduler: double resume of " + gname(next) + " (" + why + "); history: " + strings.Join(s.hist, " | ")})
	}
}
