package interp

// Exploration driver: depth-first search over decision prefixes with
// re-execution, spread over worker goroutines that each own a solver.

import (
	"fmt"
	"go/token"
	"go/types"
	"os"
	"runtime"
	"sort"
	"strings"
	"sync"
	"time"

	"golang.org/x/tools/go/ssa"
)

// Result is the outcome of exploring one harness.
type Result struct {
	Harness     string
	Paths       int
	PathsOK     int
	PathsKilled int
	Obligations int
	Discharged  int
	Unknown     int
	Queries     int
	SolverSec   float64
	WallSec     float64
	Forks       int
	Steps       int
	Violations  []*Violation
	Unsupported []string
	Budget      []string
	Labels      map[string]int
	AssertSites map[string]int
	Funcs       map[string]bool
	Stubs       map[string]bool
	Samples     []string
	SolverErrs  []string
	NontrivialPaths int
	Exhaustive  bool
	EscapedPanics []string
	UninitReads map[string]bool
}

type explorer struct {
	prog *ssa.Program
	fn   *ssa.Function
	cfg  *Config
	mu   sync.Mutex
	cond *sync.Cond
	work [][]bool
	busy int
	res  *Result
	stop bool
}

// Explore runs harness fn symbolically.
func Explore(prog *ssa.Program, fn *ssa.Function, cfg *Config) *Result {
	if cfg.MaxDecisions == 0 {
		cfg.MaxDecisions = 300
	}
	if cfg.MaxSteps == 0 {
		cfg.MaxSteps = 3000000
	}
	if cfg.MaxAlloc == 0 {
		cfg.MaxAlloc = 64
	}
	if cfg.MaxPaths == 0 {
		cfg.MaxPaths = 200000
	}
	if cfg.QueryTimeoutMs == 0 {
		cfg.QueryTimeoutMs = 10000
	}
	if cfg.Workers == 0 {
		cfg.Workers = runtime.NumCPU()
	}
	ex := &explorer{prog: prog, fn: fn, cfg: cfg}
	ex.cond = sync.NewCond(&ex.mu)
	ex.res = &Result{Harness: fn.Name(), Labels: map[string]int{}, AssertSites: map[string]int{}, Funcs: map[string]bool{}, Stubs: map[string]bool{}, UninitReads: map[string]bool{}}
	ex.work = [][]bool{nil}
	t0 := time.Now()
	var wg sync.WaitGroup
	for w := 0; w < cfg.Workers; w++ {
		wg.Add(1)
		go func() {
			defer wg.Done()
			ex.worker()
		}()
	}
	wg.Wait()
	ex.res.WallSec = time.Since(t0).Seconds()
	ex.res.Exhaustive = len(ex.res.Unsupported) == 0 && len(ex.res.Budget) == 0 && ex.res.Unknown == 0 && !ex.stop
	return ex.res
}

func (ex *explorer) worker() {
	rt := ex.cfg.QueryTimeoutMs
	if ex.cfg.ResidentTimeoutMs > 0 {
		rt = ex.cfg.ResidentTimeoutMs
	}
	sol, err := newSolver(ex.cfg.Solver, rt)
	if err != nil {
		ex.mu.Lock()
		ex.res.Unsupported = append(ex.res.Unsupported, "cannot start solver: "+err.Error())
		ex.stop = true
		ex.cond.Broadcast()
		ex.mu.Unlock()
		return
	}
	defer func() {
		ex.mu.Lock()
		ex.res.Queries += sol.queries
		ex.res.SolverSec += sol.dur.Seconds()
		for _, e := range sol.errs {
			if len(ex.res.SolverErrs) < 10 {
				ex.res.SolverErrs = append(ex.res.SolverErrs, e)
			}
		}
		ex.mu.Unlock()
		sol.close()
	}()
	for {
		ex.mu.Lock()
		for len(ex.work) == 0 && ex.busy > 0 && !ex.stop {
			ex.cond.Wait()
		}
		if ex.stop || len(ex.work) == 0 {
			ex.cond.Broadcast()
			ex.mu.Unlock()
			return
		}
		prefix := ex.work[len(ex.work)-1]
		ex.work = ex.work[:len(ex.work)-1]
		ex.busy++
		ex.mu.Unlock()

		pr := runPath(ex.prog, ex.fn, ex.cfg, sol, prefix)

		ex.mu.Lock()
		ex.busy--
		ex.merge(pr)
		ex.work = append(ex.work, pr.alternates...)
		if ex.res.Paths >= ex.cfg.MaxPaths {
			ex.res.Budget = append(ex.res.Budget, fmt.Sprintf("path budget %d exhausted", ex.cfg.MaxPaths))
			ex.stop = true
		}
		if sol.dead {
			ex.res.Unsupported = append(ex.res.Unsupported, "solver process died")
			ex.stop = true
		}
		ex.cond.Broadcast()
		ex.mu.Unlock()
	}
}

func (ex *explorer) merge(pr *pathResult) {
	r := ex.res
	r.Paths++
	if progressEvery > 0 && r.Paths%progressEvery == 0 {
		fmt.Fprintf(os.Stderr, "progress: paths=%d work=%d obligations=%d unknown=%d violations=%d last=%s/%s steps=%d forks=%d\n", r.Paths, len(ex.work), r.Obligations, r.Unknown, len(r.Violations), pr.status, pr.detail, pr.steps, pr.forks)
		type kv struct {
			k string
			n int
		}
		var kvs []kv
		for k, n := range pr.branchSites {
			kvs = append(kvs, kv{k, n})
		}
		sort.Slice(kvs, func(a, b int) bool { return kvs[a].n > kvs[b].n })
		for k := 0; k < len(kvs) && k < 8; k++ {
			fmt.Fprintf(os.Stderr, "    fork site %4d x %s\n", kvs[k].n, kvs[k].k)
		}
	}
	r.Obligations += pr.obligs
	r.Discharged += pr.discharged
	r.Unknown += pr.unknown
	r.Forks += pr.forks
	r.Steps += pr.steps
	switch pr.status {
	case "ok":
		r.PathsOK++
	case "killed":
		r.PathsKilled++
	case "unsupported":
		if len(r.Unsupported) < 20 {
			r.Unsupported = append(r.Unsupported, pr.detail)
		}
	case "budget":
		if len(r.Budget) < 20 {
			r.Budget = append(r.Budget, pr.detail)
		}
	}
	for _, v := range pr.violations {
		if len(r.Violations) < 50 {
			r.Violations = append(r.Violations, v)
		}
	}
	if len(pr.labels) > 0 && pr.status == "ok" {
		r.NontrivialPaths++
	}
	for l := range pr.labels {
		r.Labels[l]++
	}
	for l := range pr.assertSites {
		r.AssertSites[l]++
	}
	for f := range pr.funcs {
		r.Funcs[f] = true
	}
	for f := range pr.stubs {
		r.Stubs[f] = true
	}
	for f := range pr.uninit {
		r.UninitReads[f] = true
	}
	for _, s := range pr.samples {
		if len(r.Samples) < 6 {
			r.Samples = append(r.Samples, s)
		}
	}
	if pr.escaped != "" && len(r.EscapedPanics) < 10 {
		r.EscapedPanics = append(r.EscapedPanics, pr.escaped)
	}
}

func newInterpreter(prog *ssa.Program, cfg *Config) *interpreter {
	i := &interpreter{
		prog:       prog,
		globals:    make(map[*ssa.Global]*value),
		sizes:      &types.StdSizes{WordSize: 8, MaxAlign: 8},
		goroutines: 1,
		cfg:        cfg,
		initRun:    map[*ssa.Package]bool{},
		locks:      map[*value]int{},
		onces:      map[*value]bool{},
		wgs:        map[*value]int{},
		egErrs:     map[*value]iface{},
	}
	if rt := prog.ImportedPackage("runtime"); rt != nil {
		i.runtimeErrorString = rt.Type("errorString").Object().Type()
	} else {
		i.runtimeErrorString = errorType
	}
	if ep := prog.ImportedPackage("errors"); ep != nil {
		i.errorStringPtr = types.NewPointer(ep.Type("errorString").Object().Type())
	}
	if fp := prog.ImportedPackage("fmt"); fp != nil && fp.Type("wrapError") != nil {
		i.wrapErrorPtr = types.NewPointer(fp.Type("wrapError").Object().Type())
	}
	initReflect(i)
	return i
}

// runPath executes the harness once along the given decision prefix.
func runPath(prog *ssa.Program, fn *ssa.Function, cfg *Config, sol *solver, prefix []bool) (pr *pathResult) {
	i := newInterpreter(prog, cfg)
	px := newPathCtx(sol, prefix, fn.Name())
	px.i = i
	i.px = px
	pr = px.res
	if cfg.Goroutines {
		i.initSched()
		defer i.sched.shutdown()
	}
	defer func() {
		pr.steps = px.steps
		pr.stubs = px.stubsUsed
		pr.assertSites = px.assertSites
		pr.uninit = i.uninitRead
		px.finish()
	}()
	defer func() {
		r := recover()
		if r == nil {
			return
		}
		switch p := r.(type) {
		case killPath:
			pr.status, pr.detail = "killed", p.why
		case harnessStop:
			pr.status, pr.detail = "ok", p.why
		case unsupported:
			pr.status, pr.detail = "unsupported", p.msg+" [in "+i.stackString()+"]"
		case budgetExceeded:
			pr.status, pr.detail = "budget", p.why
		case deadlock:
			pr.status = "ok"
			px.escaped("deadlock: all goroutines are blocked: " + p.what)
		case wildDeref:
			// a memory-safety violation of the target program
			pr.status = "ok"
			px.escaped("memory: " + p.msg)
		default:
			pr.status = "ok"
			px.escaped(panicString(r) + " [in " + i.stackString() + "]")
		}
	}()
	call(i, nil, token.NoPos, fn, nil)
	pr.status = "ok"
	px.finalChecks()
	return pr
}

func panicString(r interface{}) string {
	switch p := r.(type) {
	case targetPanic:
		return "panic: " + toString(p.v)
	case runtime.Error:
		return "runtime error: " + p.Error()
	case runtimeErr:
		return string(p)
	case string:
		return p
	case error:
		return p.Error()
	}
	return fmt.Sprintf("%T %v", r, r)
}

// escaped handles a Go panic that unwound out of the harness: it is an
// obligation failure unless the harness declared it acceptable.
func (px *pathCtx) escaped(msg string) {
	px.res.escaped = msg
	if px.mayPanic != "" {
		px.res.labels["panic-allowed:"+px.mayPanic] = true
		return
	}
	px.res.obligs++
	r := px.sol.checkSat("")
	if r == "unsat" {
		px.res.status = "killed"
		return
	}
	px.violation("panic", "no panic escapes: "+normalizeLabel(firstLine(msg)), msg, r == "sat")
}

func firstLine(s string) string {
	if k := strings.Index(s, "\n"); k >= 0 {
		s = s[:k]
	}
	if len(s) > 160 {
		s = s[:160]
	}
	return s
}

// Summary prints a human-readable summary.
func (r *Result) Summary() string {
	var b strings.Builder
	fmt.Fprintf(&b, "harness %s: paths=%d ok=%d killed=%d obligations=%d discharged=%d unknown=%d violations=%d queries=%d solver=%.1fs wall=%.1fs\n",
		r.Harness, r.Paths, r.PathsOK, r.PathsKilled, r.Obligations, r.Discharged, r.Unknown, len(r.Violations), r.Queries, r.SolverSec, r.WallSec)
	var ls []string
	for l, n := range r.Labels {
		ls = append(ls, fmt.Sprintf("%s(%d)", l, n))
	}
	sort.Strings(ls)
	if len(ls) > 0 {
		fmt.Fprintf(&b, "  labels: %s\n", strings.Join(ls, ", "))
	}
	for _, u := range r.Unsupported {
		fmt.Fprintf(&b, "  UNSUPPORTED: %s\n", u)
	}
	for _, u := range r.Budget {
		fmt.Fprintf(&b, "  BUDGET: %s\n", u)
	}
	for _, e := range r.SolverErrs {
		fmt.Fprintf(&b, "  SOLVER-ERROR: %s\n", e)
	}
	for _, v := range r.Violations {
		fmt.Fprintf(&b, "  VIOLATION[%s] %s %s inputs=%v\n", v.Kind, v.Label, v.Detail, v.Inputs)
	}
	return b.String()
}

var progressEvery = func() int {
	n := 0
	fmt.Sscanf(os.Getenv("SYMGO_PROGRESS"), "%d", &n)
	return n
}()

func (i *interpreter) stackString() string {
	st := i.stackAtPanic
	if st == nil {
		st = i.stack
	}
	var names []string
	for k := len(st) - 1; k >= 0 && len(names) < 6; k-- {
		names = append(names, st[k].String())
	}
	return strings.Join(names, " < ")
}

// normalizeLabel removes run-specific detail (numbers, addresses) from a
// panic message so that it can serve as a stable label.
func normalizeLabel(s string) string {
	var b strings.Builder
	prevHash := false
	for _, c := range s {
		if c >= '0' && c <= '9' {
			if !prevHash {
				b.WriteByte('#')
			}
			prevHash = true
			continue
		}
		prevHash = false
		b.WriteRune(c)
	}
	return b.String()
}
