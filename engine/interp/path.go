package interp

// One execution path of the symbolic exploration: solver context, decision
// trace, obligations.

import (
	"context"
	"time"
	"fmt"
	"os/exec"
	"sort"
	"strconv"
	"strings"
)

type decision struct {
	v      bool
	forced bool
}

type inputVar struct {
	name string // harness-level name (with occurrence index)
	base string
	term string
	s    sym
}

type ufApp struct {
	fn   string
	args []sym
	ret  sym
}

// Violation describes a failed obligation with a model.
type Violation struct {
	Harness string
	Label   string
	Kind    string // "assert", "panic", "overflow", "unwind"
	Detail  string
	Inputs  map[string][]string
	UF      map[string][][]string // fn -> rows of args..., ret
	Trace   []string
	Path    []bool
}

type pathResult struct {
	status     string // "ok", "killed" (assume false), "unsupported", "budget"
	detail     string
	obligs     int
	discharged int
	unknown    int
	violations []*Violation
	labels     map[string]bool
	alternates [][]bool
	samples    []string
	steps      int
	forks      int
	funcs      map[string]bool
	stubs      map[string]bool
	assertSites map[string]bool
	uninit     map[string]bool
	escaped    string
	branchSites map[string]int // debugging: fork sites of this path (SYMGO_PROGRESS)
}

type pathCtx struct {
	i      *interpreter
	sol    *solver
	prefix []bool
	pos    int
	trace  []decision
	nsym   int
	inputs []inputVar
	occ    map[string]int
	ufs    []ufApp
	ufDecl map[string]string
	ranges []string
	res    *pathResult
	steps  int
	mayPanic string
	branchLog []string
	harness string
	script  *strings.Builder // full SMT script of this path (for cross-checking)
	stubsUsed map[string]bool
	assertSites map[string]bool
	assumes int
	freshVars map[string]bool // declared inputs not yet mentioned in any term
	fpBits  map[string]sym
	defs    map[string]string // hash-consing: sort+expr -> defined name
	decided map[string]bool   // branch conditions already decided (asserted) on this path
	pinned  map[string]int64  // terms pinned to a concrete value by choose
}

type killPath struct{ why string }
type budgetExceeded struct{ why string }

func newPathCtx(sol *solver, prefix []bool, harness string) *pathCtx {
	px := &pathCtx{sol: sol, prefix: prefix, occ: map[string]int{}, ufDecl: map[string]string{}, harness: harness}
	px.res = &pathResult{labels: map[string]bool{}, funcs: map[string]bool{}}
	px.script = &strings.Builder{}
	sol.script = func() string { return px.script.String() }
	px.stubsUsed = map[string]bool{}
	px.assertSites = map[string]bool{}
	sol.send("(push 1)")
	return px
}

func (px *pathCtx) emit(line string) {
	if len(px.freshVars) > 0 && !strings.HasPrefix(line, "(declare-const") {
		for v := range px.freshVars {
			if strings.Contains(line, v) {
				delete(px.freshVars, v)
			}
		}
	}
	px.sol.send(line)
	px.script.WriteString(line)
	px.script.WriteByte('\n')
}

func (px *pathCtx) finish() { px.sol.send("(pop 1)") }

func (px *pathCtx) define(sort, expr string) string {
	// Terms are pure, so structurally equal definitions share one name;
	// that also lets repeated branches on the same condition be recognised.
	key := sort + "\x00" + expr
	if n, ok := px.defs[key]; ok {
		return n
	}
	if px.defs == nil {
		px.defs = map[string]string{}
	}
	defer func() { px.defs[key] = "t" + strconv.Itoa(px.nsym) }()
	px.nsym++
	name := "t" + strconv.Itoa(px.nsym)
	px.emit("(define-fun " + name + " () " + sort + " " + expr + ")")
	return name
}

// fresh declares a new input variable.
func (px *pathCtx) fresh(base string, k skind, w int) sym {
	n := px.occ[base]
	px.occ[base] = n + 1
	s := sym{k, w, ""}
	px.nsym++
	s.t = "v" + strconv.Itoa(px.nsym) + "_" + sanitize(base)
	px.emit("(declare-const " + s.t + " " + s.sort() + ")")
	px.inputs = append(px.inputs, inputVar{name: base + "#" + strconv.Itoa(n), base: base, term: s.t, s: s})
	if px.freshVars == nil {
		px.freshVars = map[string]bool{}
	}
	px.freshVars[s.t] = true
	return s
}

func sanitize(s string) string {
	var b strings.Builder
	for _, c := range s {
		if c >= 'a' && c <= 'z' || c >= 'A' && c <= 'Z' || c >= '0' && c <= '9' || c == '_' {
			b.WriteRune(c)
		} else {
			b.WriteByte('_')
		}
	}
	return b.String()
}

func (px *pathCtx) assertTerm(t string) {
	px.emit("(assert " + t + ")")
}

// feasible asks whether the path condition plus c is satisfiable.
func (px *pathCtx) feasible(c string) string {
	return px.sol.checkSat(c)
}

// branch decides a symbolic condition: it returns the side taken and
// records the alternative for later exploration.
func (px *pathCtx) branch(c sym, why string) bool {
	if c.t == "true" {
		return true
	}
	if c.t == "false" {
		return false
	}
	// A condition already decided on this path (its truth value is part of
	// the path condition) is not a fork: no query, no decision recorded.
	if d, ok := px.decided[c.t]; ok {
		return d
	}
	if px.decided == nil {
		px.decided = map[string]bool{}
	}
	px.res.forks++
	if px.pos < len(px.prefix) {
		d := px.prefix[px.pos]
		px.decided[c.t] = d
		px.pos++
		px.trace = append(px.trace, decision{v: d})
		px.assume(c, d)
		px.logBranch(why, d)
		return d
	}
	if len(px.trace) >= px.i.cfg.MaxDecisions {
		panic(budgetExceeded{fmt.Sprintf("more than %d decisions on one path (unwinding bound)", px.i.cfg.MaxDecisions)})
	}
	var rt, rf string
	if c.k == kBool && px.freshVars[c.t] {
		// an unconstrained fresh boolean: both sides are feasible
		rt, rf = "sat", "sat"
	} else {
		// the path condition is satisfiable (invariant), so if one side is
		// infeasible the other one is feasible: one query suffices then.
		rt = px.feasible(c.t)
		if rt == "unsat" {
			rf = "sat"
		} else {
			rf = px.feasible("(not " + c.t + ")")
		}
	}
	if rt == "error" || rf == "error" {
		panic(unsupported{"solver error at branch: " + strings.Join(px.sol.errs, "; ")})
	}
	// The resident (incremental) solver gave up: ask the one-shot back ends.
	// Only a definite answer of theirs is used; otherwise the side stays
	// "unknown" (kept as feasible and counted).
	if rt == "unknown" {
		if r, _ := px.portfolio(c.t); r == "sat" || r == "unsat" {
			rt = r
			if r == "unsat" {
				rf = "sat"
			}
		}
	}
	if rf == "unknown" {
		if r, _ := px.portfolio("(not " + c.t + ")"); r == "sat" || r == "unsat" {
			rf = r
		}
	}
	tOK := rt != "unsat"
	fOK := rf != "unsat"
	if rt == "unknown" || rf == "unknown" {
		px.res.unknown++
	}
	var d bool
	switch {
	case tOK && fOK:
		d = true
		alt := make([]bool, 0, len(px.trace)+1)
		for _, t := range px.trace {
			alt = append(alt, t.v)
		}
		alt = append(alt, false)
		px.res.alternates = append(px.res.alternates, alt)
		px.trace = append(px.trace, decision{v: d})
	case tOK:
		d = true
		px.trace = append(px.trace, decision{v: d, forced: true})
	case fOK:
		d = false
		px.trace = append(px.trace, decision{v: d, forced: true})
	default:
		// path condition itself is unsatisfiable
		panic(killPath{"infeasible path"})
	}
	px.pos++
	px.decided[c.t] = d
	px.assume(c, d)
	px.logBranch(why, d)
	return d
}

func (px *pathCtx) logBranch(why string, d bool) {
	if progressEvery > 0 {
		if px.res.branchSites == nil {
			px.res.branchSites = map[string]int{}
		}
		w := why
		if k := strings.Index(w, "=="); k > 0 {
			w = w[:k]
		}
		px.res.branchSites[w]++
	}
	if why != "" && len(px.branchLog) < 400 {
		px.branchLog = append(px.branchLog, fmt.Sprintf("%s=%v", why, d))
	}
}

func (px *pathCtx) assume(c sym, d bool) {
	if d {
		px.assertTerm(c.t)
	} else {
		px.assertTerm("(not " + c.t + ")")
	}
}

// choose case-splits an integer term over [lo,hi] and returns the concrete
// value on this path. The caller guarantees lo<=v<=hi on the path.
func (px *pathCtx) choose(s sym, lo, hi int64, signed bool, why string) int64 {
	if v, ok := px.pinned[s.t]; ok && v >= lo && v <= hi {
		return v
	}
	if px.pinned == nil {
		px.pinned = map[string]int64{}
	}
	v := px.choose1(s, lo, hi, signed, why)
	px.pinned[s.t] = v
	return v
}

func (px *pathCtx) choose1(s sym, lo, hi int64, signed bool, why string) int64 {
	for v := lo; v < hi; v++ {
		var eq string
		if s.k == kInt {
			eq = "(= " + s.t + " " + intLit(v) + ")"
		} else {
			eq = "(= " + s.t + " " + bvLit(uint64(v), s.w) + ")"
		}
		if px.branch(px.mkBool(eq), fmt.Sprintf("%s==%d", why, v)) {
			return v
		}
	}
	// must be hi
	var eq string
	if s.k == kInt {
		eq = "(= " + s.t + " " + intLit(hi) + ")"
	} else {
		eq = "(= " + s.t + " " + bvLit(uint64(hi), s.w) + ")"
	}
	px.assertTerm(eq)
	return hi
}

// chooseFresh case-splits a fresh variable constrained only to [lo,hi]:
// every value is feasible, so no solver query is needed.
func (px *pathCtx) chooseFresh(s sym, lo, hi int64) int64 {
	v := lo
	for ; v < hi; v++ {
		taken := true
		if px.pos < len(px.prefix) {
			taken = px.prefix[px.pos]
			px.pos++
			px.trace = append(px.trace, decision{v: taken})
		} else {
			alt := make([]bool, 0, len(px.trace)+1)
			for _, t := range px.trace {
				alt = append(alt, t.v)
			}
			alt = append(alt, false)
			px.res.alternates = append(px.res.alternates, alt)
			px.trace = append(px.trace, decision{v: true})
			px.pos++
		}
		px.res.forks++
		if taken {
			break
		}
	}
	px.assertTerm("(= " + s.t + " " + bvLit(uint64(v), s.w) + ")")
	return v
}

// inRange forks on lo <= s <= hi (signed compare for BV) and returns
// whether the value is in range on this path.
func (px *pathCtx) inRange(s sym, lo, hi int64, why string) bool {
	var c string
	if s.k == kInt {
		c = "(and (<= " + intLit(lo) + " " + s.t + ") (<= " + s.t + " " + intLit(hi) + "))"
	} else {
		c = "(and (bvsle " + bvLit(uint64(lo), s.w) + " " + s.t + ") (bvsle " + s.t + " " + bvLit(uint64(hi), s.w) + "))"
	}
	return px.branch(px.mkBool(c), why)
}

// check discharges an obligation: under the path condition, c must hold.
// It returns true if proved.
func (px *pathCtx) check(c value, kind, label string) bool {
	px.res.obligs++
	if b, ok := c.(bool); ok {
		if b {
			px.res.discharged++
			return true
		}
		// concretely false on a feasible path: get a model of the path.
		r := px.sol.checkSat("")
		if r == "unsat" {
			px.res.obligs--
			panic(killPath{"infeasible path at failed assertion"})
		}
		px.violation(kind, label, "assertion is concretely false on this path", r == "sat")
		return false
	}
	s := c.(sym)
	neg := "(not " + s.t + ")"
	r := px.sol.checkSat(neg)
	switch r {
	case "unsat":
		px.res.discharged++
		if len(px.res.samples) < 3 {
			px.res.samples = append(px.res.samples, fmt.Sprintf("%s %q: pc(%d decisions) ∧ ¬%s unsat", kind, label, len(px.trace), s.t))
		}
		return true
	case "sat":
		px.violation(kind, label, "", true)
		return false
	case "error":
		panic(unsupported{"solver error at obligation " + label + ": " + strings.Join(px.sol.errs, "; ")})
	default:
		// the resident solver gave up: try the other back ends on the whole
		// path script.
		switch res, who := px.portfolio(neg); res {
		case "unsat":
			px.res.discharged++
			px.res.labels["discharged by "+who] = true
			return true
		case "sat":
			px.violation(kind, label, "counterexample found by "+who+" (model not extracted)", false)
			return false
		}
		px.res.unknown++
		px.res.labels["UNKNOWN: "+label] = true
		return false
	}
}

// portfolio runs the path's script plus one assertion on the alternative
// solvers (one-shot processes) and returns the first definite answer.
func (px *pathCtx) portfolio(extra string) (string, string) {
	if px.i == nil || px.i.cfg.NoPortfolio {
		return "unknown", ""
	}
	script := px.script.String() + "(assert " + extra + ")\n(check-sat)\n"
	type ans struct{ res, who string }
	backends := [][]string{
		{"z3-new", "-in", fmt.Sprintf("-T:%d", px.i.cfg.QueryTimeoutMs/1000+1)},
		{"cvc5", "--lang=smt2", "--solve-bv-as-int=sum", fmt.Sprintf("--tlimit=%d", px.i.cfg.QueryTimeoutMs)},
	}
	ch := make(chan ans, len(backends))
	ctx, cancelAll := context.WithCancel(context.Background())
	defer cancelAll() // stops a back end that is still running when the answer is in
	for _, be := range backends {
		go func(be []string) {
			pre := ""
			if be[0] == "cvc5" {
				pre = "(set-logic ALL)\n"
			}
			out := runOnce(ctx, be, pre+script)
			r := "unknown"
			for _, line := range strings.Split(out, "\n") {
				line = strings.TrimSpace(line)
				if strings.HasPrefix(line, "(error") {
					r = "unknown"
					break
				}
				if line == "sat" || line == "unsat" {
					r = line
				}
			}
			ch <- ans{r, strings.Join(be[:1], "") + func() string {
				if be[0] == "cvc5" {
					return " --solve-bv-as-int=sum"
				}
				return ""
			}()}
		}(be)
	}
	result := ans{"unknown", ""}
	// After the first definite answer the other back end gets a short grace
	// period (its answer is only used to detect a disagreement).
	var grace <-chan time.Time
	for k := 0; k < len(backends); k++ {
		var a ans
		select {
		case a = <-ch:
		case <-grace:
			return result.res, result.who
		}
		if a.res == "sat" || a.res == "unsat" {
			if result.res == "unknown" {
				result = a
				grace = time.After(1500 * time.Millisecond)
			} else if result.res != a.res {
				return "unknown", "solver disagreement"
			}
		}
	}
	return result.res, result.who
}

func (px *pathCtx) violation(kind, label, detail string, haveModel bool) {
	v := &Violation{Harness: px.harness, Label: label, Kind: kind, Detail: detail, Inputs: map[string][]string{}, UF: map[string][][]string{}}
	if haveModel {
		for _, in := range px.inputs {
			txt, ok := px.sol.getValue(in.term)
			if !ok {
				txt = "?"
			}
			v.Inputs[in.base] = append(v.Inputs[in.base], modelToGo(txt, in.s))
		}
		for _, u := range px.ufs {
			row := []string{}
			for _, a := range u.args {
				txt, _ := px.sol.getValue(a.t)
				row = append(row, modelToGo(txt, a))
			}
			txt, _ := px.sol.getValue(u.ret.t)
			row = append(row, modelToGo(txt, u.ret))
			v.UF[u.fn] = append(v.UF[u.fn], row)
		}
	}
	for _, t := range px.trace {
		v.Path = append(v.Path, t.v)
	}
	v.Trace = append(v.Trace, px.branchLog...)
	px.res.violations = append(px.res.violations, v)
}

// modelToGo renders a model value as a decimal string (two's complement
// signed for 64-bit values is left to the reader: values are printed as
// unsigned decimal of the bit pattern, except Int sort).
func modelToGo(txt string, s sym) string {
	txt = strings.TrimSpace(txt)
	switch s.k {
	case kBool:
		return txt
	case kInt:
		t := strings.ReplaceAll(txt, " ", "")
		if strings.HasPrefix(t, "(-") {
			return "-" + strings.TrimSuffix(strings.TrimPrefix(t, "(-"), ")")
		}
		return t
	case kBV:
		return bvModel(txt)
	case kFP:
		// (fp #b0 #b... #b...) -> bits as decimal
		f := strings.Fields(strings.Trim(txt, "()"))
		if len(f) == 4 && f[0] == "fp" {
			bits := strings.TrimPrefix(f[1], "#b") + binOf(f[2]) + binOf(f[3])
			u, err := strconv.ParseUint(bits, 2, 64)
			if err == nil {
				return strconv.FormatUint(u, 10)
			}
		}
		if strings.Contains(txt, "NaN") {
			if s.w == 32 {
				return strconv.FormatUint(0x7fc00000, 10)
			}
			return strconv.FormatUint(0x7ff8000000000000, 10)
		}
		if strings.Contains(txt, "+zero") {
			return "0"
		}
		if strings.Contains(txt, "-zero") {
			if s.w == 32 {
				return strconv.FormatUint(0x80000000, 10)
			}
			return strconv.FormatUint(0x8000000000000000, 10)
		}
		if strings.Contains(txt, "+oo") {
			if s.w == 32 {
				return strconv.FormatUint(0x7f800000, 10)
			}
			return strconv.FormatUint(0x7ff0000000000000, 10)
		}
		if strings.Contains(txt, "-oo") {
			if s.w == 32 {
				return strconv.FormatUint(0xff800000, 10)
			}
			return strconv.FormatUint(0xfff0000000000000, 10)
		}
		return txt
	}
	return txt
}

func binOf(s string) string {
	if strings.HasPrefix(s, "#b") {
		return s[2:]
	}
	if strings.HasPrefix(s, "#x") {
		var b strings.Builder
		for _, c := range s[2:] {
			v, _ := strconv.ParseUint(string(c), 16, 8)
			fmt.Fprintf(&b, "%04b", v)
		}
		return b.String()
	}
	return s
}

func bvModel(txt string) string {
	if strings.HasPrefix(txt, "#x") {
		u, err := strconv.ParseUint(txt[2:], 16, 64)
		if err == nil {
			return strconv.FormatUint(u, 10)
		}
	}
	if strings.HasPrefix(txt, "#b") {
		u, err := strconv.ParseUint(txt[2:], 2, 64)
		if err == nil {
			return strconv.FormatUint(u, 10)
		}
	}
	if strings.HasPrefix(txt, "(_ bv") {
		f := strings.Fields(strings.Trim(txt, "()"))
		if len(f) >= 2 {
			return strings.TrimPrefix(f[1], "bv")
		}
	}
	return txt
}

// finalChecks runs the end-of-path obligations (int-mode ranges).
func (px *pathCtx) finalChecks() {
	if len(px.ranges) == 0 {
		return
	}
	all := px.mkBool("(and true " + strings.Join(px.ranges, " ") + ")")
	px.check(all, "overflow", "int-mode arithmetic stays within the Go type")
}

func sortedKeys(m map[string]bool) []string {
	var ks []string
	for k := range m {
		ks = append(ks, k)
	}
	sort.Strings(ks)
	return ks
}

func runOnce(ctx context.Context, argv []string, input string) string {
	cmd := exec.CommandContext(ctx, argv[0], argv[1:]...)
	cmd.Stdin = strings.NewReader(input)
	out, _ := cmd.CombinedOutput()
	return string(out)
}
