package interp

// Intrinsics: functions the engine implements natively instead of
// interpreting their source (synchronisation, atomics, formatting, logging,
// time) and the harness API (package zzverif).

import (
	"fmt"
	"math"
	"go/token"
	"go/types"
	"strconv"
	"strings"

	"golang.org/x/tools/go/ssa"
)

const zzPkgSuffix = "internal/zzverif"

// default no-op prefixes: logging / status display / tracing / profiling.
var noopPrefixes = []string{
	"log.", "(*log.Logger).",
	"github.com/grailbio/base/log.",
	"github.com/grailbio/base/status.", "(*github.com/grailbio/base/status.",
	"(*github.com/grailbio/base/eventlog.", "(github.com/grailbio/base/eventlog.",
	"expvar.", "(*expvar.",
	"runtime/pprof.", "runtime/trace.", "runtime.SetFinalizer", "runtime.KeepAlive", "runtime.GC",
	"(*github.com/grailbio/bigslice/internal/trace.",
	"(*github.com/grailbio/base/limiter.Limiter).Release",
	"os/signal.",
	"encoding/gob.Register",
	"github.com/grailbio/base/diagnostic/dump.", "(*github.com/grailbio/base/diagnostic/dump.",
}

func (i *interpreter) intercept(fr *frame, fn *ssa.Function, args []value) (value, bool) {
	if fn.Pkg != nil && fn.Parent() == nil {
		if fn.Synthetic == "package initializer" {
			if i.initDirect == fn {
				i.initDirect = nil
				return nil, false
			}
			i.ensureInit(fn.Pkg)
			return nil, true
		}
		if strings.HasSuffix(fn.Pkg.Pkg.Path(), zzPkgSuffix) {
			return i.zzCall(fr, fn, args), true
		}
	}
	name := fn.String()
	if i.cfg.Stubs != nil {
		if repl, ok := i.cfg.Stubs[name]; ok {
			target := i.lookupFunc(repl)
			if target == nil {
				panic(unsupported{"stub target not found: " + repl})
			}
			i.px.stubsUsed[name+" => "+repl] = true
			return callSSA(i, fr.caller, token.NoPos, target, args, nil), true
		}
	}
	if in, ok := intrinsics[name]; ok {
		return in(fr, args), true
	}
	if fn.Parent() == nil {
		if strings.HasPrefix(name, "(*sync/atomic.Pointer[") {
			return i.atomicPointerMethod(fr, fn, args), true
		}
		for _, p := range noopPrefixes {
			if strings.HasPrefix(name, p) {
				if i.schedOn() && strings.Contains(p, "limiter.Limiter") {
					// with goroutines the real limiter runs
					continue
				}
				return zeroResults(fn), true
			}
		}
		for _, p := range i.cfg.NoOps {
			if strings.HasPrefix(name, p) {
				return zeroResults(fn), true
			}
		}
	}
	return nil, false
}

func zeroResults(fn *ssa.Function) value {
	res := fn.Signature.Results()
	if res.Len() == 0 {
		return nil
	}
	return zero(res)
}

func (i *interpreter) lookupFunc(full string) *ssa.Function {
	// full = "pkg/path.Name"
	k := strings.LastIndex(full, ".")
	if k < 0 {
		return nil
	}
	pkg := i.prog.ImportedPackage(full[:k])
	if pkg == nil {
		return nil
	}
	return pkg.Func(full[k+1:])
}

func strArg(v value) string {
	s, ok := v.(string)
	if !ok {
		panic(unsupported{fmt.Sprintf("harness API needs a constant string, got %T", v)})
	}
	return s
}

func (i *interpreter) zzCall(fr *frame, fn *ssa.Function, args []value) value {
	px := i.px
	name := fn.Name()
	anyBV := func(w int) value { return px.fresh(strArg(args[0]), kBV, w) }
	if i.cfg.Pinned != nil {
		if v, ok := i.pinnedCall(fn, name, args); ok {
			return v
		}
	}
	switch name {
	case "AnyInt", "AnyInt64", "AnyUint", "AnyUint64", "AnyUintptr":
		return anyBV(64)
	case "AnyInt32", "AnyUint32":
		return anyBV(32)
	case "AnyInt16", "AnyUint16":
		return anyBV(16)
	case "AnyInt8", "AnyUint8":
		return anyBV(8)
	case "AnyIntMath":
		s := px.fresh(strArg(args[0]), kInt, 0)
		px.intRange(s, types.Typ[types.Int64])
		px.assertTerm(px.ranges[len(px.ranges)-1])
		px.ranges = px.ranges[:len(px.ranges)-1]
		return s
	case "AnyBool":
		return px.fresh(strArg(args[0]), kBool, 0)
	case "AnyStringAtom":
		k := asInt64(args[1])
		id := px.fresh(strArg(args[0]), kBV, 8)
		px.assertTerm("(bvult " + id.t + " " + bvLit(uint64(k), 8) + ")")
		return symstr{id: id}
	case "AnyFloat64":
		return px.fpFromBits(px.fresh(strArg(args[0]), kBV, 64), 64)
	case "AnyFloat32":
		return px.fpFromBits(px.fresh(strArg(args[0]), kBV, 32), 32)
	case "AnyIntIn":
		lo, hi := asInt64(args[1]), asInt64(args[2])
		if lo > hi {
			panic(killPath{"empty AnyIntIn range"})
		}
		s := px.fresh(strArg(args[0]), kBV, 64)
		return int(px.chooseFresh(s, lo, hi))
	case "Assume":
		switch c := args[0].(type) {
		case bool:
			if !c {
				panic(killPath{"assumption false"})
			}
		case sym:
			px.assertTerm(c.t)
			px.assumes++
			// keep the invariant "path condition is satisfiable"
			switch px.sol.checkSat("") {
			case "unsat":
				panic(killPath{"assumption infeasible"})
			case "error":
				panic(unsupported{"solver error at Assume: " + strings.Join(px.sol.errs, "; ")})
			}
		}
		return nil
	case "Assert":
		label := strArg(args[1])
		px.assertSites[label] = true
		ok := px.check(args[0], "assert", label)
		if !ok {
			// stop this path at the first failed assertion
			panic(harnessStop{"assertion failed: " + label})
		}
		return nil
	case "Reach":
		px.res.labels[strArg(args[0])] = true
		return nil
	case "NewProcess":
		// a fresh OS process: package-level state is gone, initialisers run
		// again, and every per-process source of randomness yields new values
		i.globals = map[*ssa.Global]*value{}
		i.initRun = map[*ssa.Package]bool{}
		px.stubsUsed["zz.NewProcess => package-level variables reset, package initialisers re-run, per-process random sources (hash/maphash.MakeSeed) yield fresh values"] = true
		return nil
	case "MayPanic":
		px.mayPanic = strArg(args[0])
		return nil
	case "NoPanic":
		px.mayPanic = ""
		return nil
	case "And":
		return px.and(args[0], args[1])
	case "Or":
		return px.or(args[0], args[1])
	case "Not":
		return px.notv(args[0])
	case "Iff":
		return px.or(px.and(args[0], args[1]), px.and(px.notv(args[0]), px.notv(args[1])))
	case "Implies":
		return px.or(px.notv(args[0]), args[1])
	case "IteInt", "IteInt64", "IteBool":
		return px.ite(args[0], args[1], args[2])
	case "Concrete":
		return int(i.concreteInt(args[0], 0, int64(i.cfg.MaxAlloc), "Concrete"))
	case "IsSymbolic":
		return containsSym(args[0])
	case "UFInt64", "UFUint32", "UFBool":
		return i.ufApply(name, strArg(args[0]), args[1].([]value))
	case "CallAnon":
		// CallAnon(name, freeVars []interface{}, args ...interface{}): run an
		// anonymous function of the package under test (e.g. the body of a
		// goroutine) as a unit, with the given captured variables (pointers).
		target := i.findAnon(fr, strArg(args[0]))
		if target == nil {
			panic(unsupported{"CallAnon: no anonymous function " + strArg(args[0])})
		}
		unwrap := func(vs []value) []value {
			out := make([]value, len(vs))
			for k, v := range vs {
				out[k] = v.(iface).v
			}
			return out
		}
		free := unwrap(args[1].([]value))
		if len(free) != len(target.FreeVars) {
			var names []string
			for _, fv := range target.FreeVars {
				names = append(names, fv.Name()+" "+fv.Type().String())
			}
			panic(unsupported{fmt.Sprintf("CallAnon %s: want %d free variables %v", target, len(target.FreeVars), names)})
		}
		px.stubsUsed["CallAnon "+target.String()+" (goroutine body run as a unit)"] = true
		return callSSA(i, fr, token.NoPos, target, unwrap(args[2].([]value)), free)
	case "Unsupported":
		panic(unsupported{"harness: " + strArg(args[0])})
	case "Logf":
		if i.cfg.DebugPanics || i.cfg.Trace {
			fmt.Println("harness:", i.sprintf(fr, args[0], args[1].([]value)))
		}
		return nil
	case "ResetReplay", "RunNative", "ReplayInfo":
		panic(unsupported{"native-only zzverif function " + name})
	}
	panic(unsupported{"unknown zzverif function " + name})
}

func (i *interpreter) ufApply(kind, fn string, args []value) value {
	px := i.px
	var as []sym
	var sorts []string
	for _, a := range args {
		s := toSym(a, sym{kBV, 64, ""})
		if s.k != kBV || s.w != 64 {
			panic(unsupported{"UF argument must be int64"})
		}
		as = append(as, s)
		sorts = append(sorts, "(_ BitVec 64)")
	}
	var ret sym
	switch kind {
	case "UFInt64":
		ret = sym{kBV, 64, ""}
	case "UFUint32":
		ret = sym{kBV, 32, ""}
	case "UFBool":
		ret = sym{kBool, 0, ""}
	}
	key := fn + "/" + strconv.Itoa(len(as))
	sname, ok := px.ufDecl[key]
	if !ok {
		sname = "uf_" + sanitize(fn) + "_" + strconv.Itoa(len(as))
		px.ufDecl[key] = sname
		px.emit("(declare-fun " + sname + " (" + strings.Join(sorts, " ") + ") " + ret.sort() + ")")
	}
	var ts []string
	for _, a := range as {
		ts = append(ts, a.t)
	}
	var r sym
	if len(ts) == 0 {
		r = px.mk(ret.k, ret.w, sname)
	} else {
		r = px.mk(ret.k, ret.w, "("+sname+" "+strings.Join(ts, " ")+")")
	}
	px.ufs = append(px.ufs, ufApp{fn: fn, args: as, ret: r})
	return r
}

// ---------------------------------------------------------------------

var intrinsics = map[string]externalFn{}

func init() {
	for k, v := range map[string]externalFn{
		"(*sync.Mutex).Lock":      intMutexLock,
		"(*sync.Mutex).Unlock":    intMutexUnlock,
		"(*sync.Mutex).TryLock":   intMutexTryLock,
		"(*sync.RWMutex).Lock":    intMutexLock,
		"(*sync.RWMutex).Unlock":  intMutexUnlock,
		"(*sync.RWMutex).RLock":   intRLock,
		"(*sync.RWMutex).RUnlock": intRUnlock,
		"(*sync.Once).Do":         intOnceDo,
		"runtime/pprof.Do": func(fr *frame, a []value) value { // labels are dropped; the function runs with the caller's context
			call(fr.i, fr, token.NoPos, a[2], []value{a[0]})
			return nil
		},
		"(*sync.WaitGroup).Add":   intWGAdd,
		"(*sync.WaitGroup).Done":  func(fr *frame, a []value) value { return intWGAdd(fr, []value{a[0], -1}) },
		"(*sync.WaitGroup).Wait":  intWGWait,
		"(*sync.Cond).Broadcast":  intCondSignal,
		"(*sync.Cond).Signal":     intCondSignal,
		"(*sync.Cond).Wait":       intCondWait,
		"(*sync.Pool).Get": intPoolGet,
		"(*sync.Pool).Put": func(fr *frame, a []value) value { return nil },

		"sync/atomic.AddInt32":   intAtomicAdd,
		"sync/atomic.AddInt64":   intAtomicAdd,
		"sync/atomic.AddUint32":  intAtomicAdd,
		"sync/atomic.AddUint64":  intAtomicAdd,
		"sync/atomic.AddUintptr": intAtomicAdd,
		"sync/atomic.LoadInt32":  intAtomicLoad, "sync/atomic.LoadInt64": intAtomicLoad,
		"sync/atomic.LoadUint32": intAtomicLoad, "sync/atomic.LoadUint64": intAtomicLoad,
		"sync/atomic.LoadUintptr": intAtomicLoad, "sync/atomic.LoadPointer": intAtomicLoad,
		"sync/atomic.StoreInt32": intAtomicStore, "sync/atomic.StoreInt64": intAtomicStore,
		"sync/atomic.StoreUint32": intAtomicStore, "sync/atomic.StoreUint64": intAtomicStore,
		"sync/atomic.StoreUintptr": intAtomicStore, "sync/atomic.StorePointer": intAtomicStore,
		"sync/atomic.SwapInt32": intAtomicSwap, "sync/atomic.SwapInt64": intAtomicSwap,
		"sync/atomic.SwapUint32": intAtomicSwap, "sync/atomic.SwapUint64": intAtomicSwap,
		"sync/atomic.SwapPointer": intAtomicSwap,
		"sync/atomic.CompareAndSwapInt32": intAtomicCAS, "sync/atomic.CompareAndSwapInt64": intAtomicCAS,
		"sync/atomic.CompareAndSwapUint32": intAtomicCAS, "sync/atomic.CompareAndSwapUint64": intAtomicCAS,
		"sync/atomic.CompareAndSwapPointer": intAtomicCAS, "sync/atomic.CompareAndSwapUintptr": intAtomicCAS,
		"(*sync/atomic.Value).Load":  intAtomicValueLoad,
		"(*sync/atomic.Value).Store": intAtomicValueStore,

		"fmt.Sprintf":  func(fr *frame, a []value) value { return fr.i.sprintf(fr, a[0], a[1].([]value)) },
		"fmt.Sprint":   func(fr *frame, a []value) value { return fr.i.sprint(fr, a[0].([]value), false) },
		"fmt.Sprintln": func(fr *frame, a []value) value { return fr.i.sprint(fr, a[0].([]value), true) },
		"fmt.Errorf":   intErrorf,
		"fmt.Printf":   func(fr *frame, a []value) value { return tuple{0, iface{}} },
		"fmt.Println":  func(fr *frame, a []value) value { return tuple{0, iface{}} },
		"fmt.Print":    func(fr *frame, a []value) value { return tuple{0, iface{}} },
		"fmt.Fprintf":  intFprintf,
		"fmt.Fprintln": func(fr *frame, a []value) value { return tuple{0, iface{}} },
		"fmt.Fprint":   func(fr *frame, a []value) value { return tuple{0, iface{}} },

		"time.Now":   func(fr *frame, a []value) value { return zero(fr.fn.Signature.Results().At(0).Type()) },
		"time.Since": func(fr *frame, a []value) value { return int64(0) },
		"time.Until": func(fr *frame, a []value) value { return int64(0) },
		"time.Sleep": func(fr *frame, a []value) value { return nil },
		"(time.Time).Sub":   func(fr *frame, a []value) value { return int64(0) },
		"(time.Time).After": func(fr *frame, a []value) value { return false },

		"internal/reflectlite.TypeOf": ext۰reflect۰TypeOf,
		"math.Pow": func(fr *frame, a []value) value { return math.Pow(a[0].(float64), a[1].(float64)) },
		"time.After": func(fr *frame, a []value) value {
			return &channel{cap: 1, i: fr.i, timer: true, buf: []value{zero(fr.fn.Signature.Results().At(0).Type().Underlying().(*types.Chan).Elem())}}
		},
		"time.NewTimer":        intNewTimer,
		"(*time.Timer).Stop":   intTimerStop,
		"(*time.Timer).Reset":  intTimerReset,
		"time.NewTicker":       intNewTicker,
		"(*time.Ticker).Stop":  func(fr *frame, a []value) value { return nil },
		"flag.IntVar": intFlagVar, "flag.BoolVar": intFlagVar, "flag.StringVar": intFlagVar, "flag.DurationVar": intFlagVar,
		"flag.Float64VarX": intFlagVar, "flag.Int64Var": intFlagVar, "flag.UintVar": intFlagVar, "flag.Float64Var": intFlagVar,
		"flag.Int": intFlagNew, "flag.Bool": intFlagNew, "flag.String": intFlagNew, "flag.Duration": intFlagNew, "flag.Float64": intFlagNew,
		"flag.Var": func(fr *frame, a []value) value { return nil },
		"flag.Parse": func(fr *frame, a []value) value { return nil },
		"flag.Parsed": func(fr *frame, a []value) value { return true },
		"github.com/grailbio/bigslice/frame.typedslicecopy": intTypedSliceCopy,
		"github.com/grailbio/bigslice/frame.typedmemmove":   intTypedMemmove,
		"github.com/grailbio/bigslice/internal/zero.Unsafe": intZeroUnsafe,
		"github.com/spaolacci/murmur3.Sum32WithSeed":        intMurmur,
		"hash/maphash.MakeSeed": func(fr *frame, a []value) value {
			fr.i.px.stubsUsed["hash/maphash.MakeSeed => an arbitrary per-process value"] = true
			return structure{fr.i.px.fresh("process-random maphash seed", kBV, 64)}
		},
		"hash/maphash.String": intMaphash,
		"hash/maphash.Bytes":  intMaphash,
		"github.com/spaolacci/murmur3.Sum32":                func(fr *frame, a []value) value { return intMurmur(fr, []value{a[0], uint32(0)}) },
		"(*golang.org/x/sync/errgroup.Group).Go":   intErrgroupGo,
		"(*golang.org/x/sync/errgroup.Group).Wait": intErrgroupWait,
		"runtime.Caller": func(fr *frame, a []value) value { return tuple{uintptr(0), "verif.go", 1, true} },
		"runtime.Callers": func(fr *frame, a []value) value {
			pc := a[1].([]value)
			if len(pc) == 0 {
				return 0
			}
			pc[0] = uintptr(1)
			return 1
		},
		"runtime.CallersFrames": func(fr *frame, a []value) value {
			t := fr.fn.Signature.Results().At(0).Type().Underlying().(*types.Pointer).Elem()
			v := zero(t)
			return &v
		},
		"(*runtime.Frames).Next": func(fr *frame, a []value) value {
			ft := fr.fn.Signature.Results().At(0).Type()
			f := zero(ft).(structure)
			st := ft.Underlying().(*types.Struct)
			for k := 0; k < st.NumFields(); k++ {
				switch st.Field(k).Name() {
				case "PC":
					f[k] = uintptr(1)
				case "Function":
					f[k] = "verif.caller"
				case "File":
					f[k] = "verif.go"
				case "Line":
					f[k] = 1
				}
			}
			return tuple{f, false}
		},
		"runtime.NumCPU": func(fr *frame, a []value) value { return 4 },
		"runtime.GOMAXPROCS": func(fr *frame, a []value) value { return 4 },
		"runtime.Gosched": func(fr *frame, a []value) value {
			if s := fr.i.sched; s != nil {
				// let every other runnable goroutine run until it blocks
				cur := s.cur
				s.fireTimers(true)
				for _, g := range append([]*gor(nil), s.gs...) {
					if g != cur && g.runnable() {
						s.switchTo(cur, g)
					}
				}
			}
			return nil
		},
		"runtime.Stack":  func(fr *frame, a []value) value { return 0 },
		"runtime/debug.Stack": func(fr *frame, a []value) value { return []value(nil) },
		"os.Getenv":      func(fr *frame, a []value) value { return "" },
		"os.Getpid":      func(fr *frame, a []value) value { return 1 },

		"strings.Join":      intStringsJoin,
		"strings.HasPrefix": func(fr *frame, a []value) value {
			if ss, ok := a[0].(symstr); ok {
				p := a[1].(string)
				if len(p) <= len(ss.prefix) {
					return strings.HasPrefix(ss.prefix, p)
				}
				return false
			}
			return strings.HasPrefix(a[0].(string), a[1].(string))
		},
		"strings.HasSuffix": func(fr *frame, a []value) value { return strings.HasSuffix(a[0].(string), a[1].(string)) },
		"strings.Contains":  func(fr *frame, a []value) value { return strings.Contains(a[0].(string), a[1].(string)) },
		"strings.TrimPrefix": func(fr *frame, a []value) value { return strings.TrimPrefix(a[0].(string), a[1].(string)) },
		"strings.TrimSuffix": func(fr *frame, a []value) value { return strings.TrimSuffix(a[0].(string), a[1].(string)) },
		"strings.Repeat":    func(fr *frame, a []value) value { return strings.Repeat(a[0].(string), a[1].(int)) },
		"strings.Split":     func(fr *frame, a []value) value { return strSlice(strings.Split(a[0].(string), a[1].(string))) },
		"strings.TrimSpace": func(fr *frame, a []value) value { return strings.TrimSpace(a[0].(string)) },
		"strconv.Itoa":      func(fr *frame, a []value) value { return strconv.Itoa(a[0].(int)) },
		"strconv.Quote":     func(fr *frame, a []value) value { return strconv.Quote(a[0].(string)) },
		"strconv.FormatInt": func(fr *frame, a []value) value { return strconv.FormatInt(a[0].(int64), a[1].(int)) },
	} {
		intrinsics[k] = v
	}
}

func strSlice(ss []string) []value {
	r := make([]value, len(ss))
	for k, s := range ss {
		r[k] = s
	}
	return r
}

func intStringsJoin(fr *frame, a []value) value {
	var ss []string
	for _, e := range a[0].([]value) {
		ss = append(ss, e.(string))
	}
	return strings.Join(ss, a[1].(string))
}

func lockKey(v value) *value {
	p, ok := v.(*value)
	if !ok || p == nil {
		panic(runtimeErr("invalid memory address or nil pointer dereference"))
	}
	return p
}

func intMutexLock(fr *frame, a []value) value {
	k := lockKey(a[0])
	if fr.i.sched != nil {
		fr.i.sched.yield()
		fr.i.sched.waitFor(func() bool { return fr.i.locks[k] == 0 })
	}
	if fr.i.locks[k] != 0 {
		panic(unsupported{"lock acquired while already held (sequential engine would deadlock) at " + fr.callerPos()})
	}
	fr.i.locks[k] = -1
	return nil
}

func (fr *frame) callerPos() string {
	if fr.caller != nil {
		return fr.caller.fn.String()
	}
	return "?"
}

func intMutexTryLock(fr *frame, a []value) value {
	k := lockKey(a[0])
	if fr.i.locks[k] != 0 {
		return false
	}
	fr.i.locks[k] = -1
	return true
}

func intMutexUnlock(fr *frame, a []value) value {
	k := lockKey(a[0])
	if fr.i.locks[k] != -1 {
		panic(targetPanic{iface{fr.i.runtimeErrorString, "sync: unlock of unlocked mutex"}})
	}
	delete(fr.i.locks, k)
	return nil
}

func intRLock(fr *frame, a []value) value {
	k := lockKey(a[0])
	if fr.i.sched != nil {
		fr.i.sched.waitFor(func() bool { return fr.i.locks[k] != -1 })
	}
	if fr.i.locks[k] == -1 {
		panic(unsupported{"RLock while write-locked (sequential engine would deadlock)"})
	}
	fr.i.locks[k]++
	return nil
}

func intRUnlock(fr *frame, a []value) value {
	k := lockKey(a[0])
	if fr.i.locks[k] <= 0 {
		panic(targetPanic{iface{fr.i.runtimeErrorString, "sync: RUnlock of unlocked RWMutex"}})
	}
	fr.i.locks[k]--
	if fr.i.locks[k] == 0 {
		delete(fr.i.locks, k)
	}
	return nil
}

func intOnceDo(fr *frame, a []value) value {
	k := lockKey(a[0])
	if fr.i.onces[k] {
		return nil
	}
	fr.i.onces[k] = true
	call(fr.i, fr, token.NoPos, a[1], nil)
	return nil
}

func intWGAdd(fr *frame, a []value) value {
	k := lockKey(a[0])
	fr.i.wgs[k] += int(asInt64(a[1]))
	return nil
}

func intWGWait(fr *frame, a []value) value {
	k := lockKey(a[0])
	if fr.i.sched != nil {
		fr.i.sched.waitFor(func() bool { return fr.i.wgs[k] <= 0 })
	}
	if fr.i.wgs[k] > 0 {
		panic(unsupported{"WaitGroup.Wait would block (no goroutine scheduler)"})
	}
	return nil
}

func intPoolGet(fr *frame, a []value) value {
	p := a[0].(*value)
	st := (*p).(structure)
	// New is the last field
	newFn := st[len(st)-1]
	switch f := newFn.(type) {
	case *ssa.Function:
		if f == nil {
			return iface{}
		}
	}
	return call(fr.i, fr, token.NoPos, newFn, nil)
}

func intAtomicAdd(fr *frame, a []value) value {
	p := a[0].(*value)
	t := fr.fn.Signature.Params().At(1).Type()
	*p = binop(fr.i, token.ADD, t, *p, a[1])
	return *p
}

func intAtomicLoad(fr *frame, a []value) value  { return *(a[0].(*value)) }
func intAtomicStore(fr *frame, a []value) value { *(a[0].(*value)) = a[1]; return nil }
func intAtomicSwap(fr *frame, a []value) value {
	p := a[0].(*value)
	old := *p
	*p = a[1]
	return old
}

func intAtomicCAS(fr *frame, a []value) value {
	p := a[0].(*value)
	t := fr.fn.Signature.Params().At(1).Type()
	eq := binop(fr.i, token.EQL, t, *p, a[1])
	switch c := eq.(type) {
	case bool:
		if c {
			*p = a[2]
		}
		return c
	case sym:
		if fr.i.px.branch(c, "cas") {
			*p = a[2]
			return true
		}
		return false
	}
	panic("cas")
}

func intAtomicValueLoad(fr *frame, a []value) value {
	p := a[0].(*value)
	return (*p).(structure)[0]
}

func intAtomicValueStore(fr *frame, a []value) value {
	p := a[0].(*value)
	(*p).(structure)[0] = a[1]
	return nil
}

// atomicPointerMethod implements the methods of the generic
// sync/atomic.Pointer[T]: the struct's last field v holds the pointer.
func (i *interpreter) atomicPointerMethod(fr *frame, fn *ssa.Function, args []value) value {
	p := args[0].(*value)
	st := (*p).(structure)
	cell := &st[len(st)-1]
	conv := func(v value) value {
		// stored as unsafe.Pointer in the real type; we store the typed pointer
		return v
	}
	mname := fn.Name()
	if k := strings.Index(mname, "["); k >= 0 {
		mname = mname[:k]
	}
	switch mname {
	case "Load":
		if u, ok := (*cell).(uptr); ok {
			if u.isNil() {
				return (*value)(nil)
			}
			return u.cell
		}
		return *cell
	case "Store":
		*cell = conv(args[1])
		return nil
	case "Swap":
		old := *cell
		*cell = conv(args[1])
		if u, ok := old.(uptr); ok {
			if u.isNil() {
				return (*value)(nil)
			}
			return u.cell
		}
		return old
	case "CompareAndSwap":
		cur := *cell
		if u, ok := cur.(uptr); ok {
			if u.isNil() {
				cur = (*value)(nil)
			} else {
				cur = u.cell
			}
		}
		if cur == args[1] {
			*cell = conv(args[2])
			return true
		}
		return false
	}
	panic(unsupported{"atomic.Pointer method " + fn.Name()})
}

// ---------------------------------------------------------------------
// formatting

// goNative converts an interpreter value into something package fmt can
// print: strings for errors/Stringers, Go scalars, or a placeholder.
func (i *interpreter) goNative(fr *frame, v value, t types.Type, depth int) interface{} {
	if depth > 4 {
		return "…"
	}
	switch x := v.(type) {
	case nil:
		return nil
	case sym:
		return "<sym>"
	case symstr:
		return x.prefix + "<symstr>"
	case iface:
		if x.t == nil {
			return nil
		}
		return i.goNative(fr, x.v, x.t, depth+1)
	case uptr:
		return "<ptr>"
	}
	if t != nil {
		if s, ok := i.callStringMethod(fr, v, t); ok {
			return fmtString(s)
		}
	}
	switch x := v.(type) {
	case bool, int, int8, int16, int32, int64, uint, uint8, uint16, uint32, uint64, uintptr, float32, float64, complex64, complex128, string:
		return x
	case *value:
		if x == nil {
			return nil
		}
		return fmtString("0xc000")
	case []value:
		if t != nil {
			if st, ok := t.Underlying().(*types.Slice); ok {
				if b, ok := st.Elem().Underlying().(*types.Basic); ok && b.Kind() == types.Uint8 {
					bs := make([]byte, 0, len(x))
					for _, e := range x {
						if c, ok := e.(uint8); ok {
							bs = append(bs, c)
						} else {
							bs = append(bs, '?')
						}
					}
					return bs
				}
				out := make([]interface{}, len(x))
				for k, e := range x {
					out[k] = i.goNative(fr, e, st.Elem(), depth+1)
				}
				return out
			}
		}
		out := make([]interface{}, len(x))
		for k, e := range x {
			out[k] = i.goNative(fr, e, nil, depth+1)
		}
		return out
	case structure:
		var parts []string
		st, _ := typeUnderStruct(t)
		for k, e := range x {
			var ft types.Type
			if st != nil && k < st.NumFields() {
				ft = st.Field(k).Type()
			}
			parts = append(parts, fmt.Sprint(i.goNative(fr, e, ft, depth+1)))
		}
		return fmtString("{" + strings.Join(parts, " ") + "}")
	case rtype:
		return fmtString(x.t.String())
	}
	return fmtString(toString(v))
}

func typeUnderStruct(t types.Type) (*types.Struct, bool) {
	if t == nil {
		return nil, false
	}
	st, ok := t.Underlying().(*types.Struct)
	return st, ok
}

// fmtString prints as itself under every verb.
type fmtString string

func (s fmtString) Format(f fmt.State, c rune) {
	if c == 'q' {
		fmt.Fprint(f, strconv.Quote(string(s)))
		return
	}
	fmt.Fprint(f, string(s))
}

// callStringMethod calls Error() or String() of a value if its type has one.
func (i *interpreter) callStringMethod(fr *frame, v value, t types.Type) (string, bool) {
	if _, ok := t.Underlying().(*types.Interface); ok {
		return "", false
	}
	if p, ok := v.(*value); ok && p == nil {
		return "", false
	}
	for _, m := range []string{"Error", "String"} {
		ms := i.prog.MethodSets.MethodSet(t)
		sel := ms.Lookup(nil, m)
		if sel == nil {
			// try unexported-package lookup is unnecessary for Error/String
			continue
		}
		sig := sel.Type().(*types.Signature)
		if sig.Params().Len() != 0 || sig.Results().Len() != 1 {
			continue
		}
		if b, ok := sig.Results().At(0).Type().Underlying().(*types.Basic); !ok || b.Kind() != types.String {
			continue
		}
		f := i.prog.MethodValue(sel)
		if f == nil {
			continue
		}
		if i.fmtDepth > 6 {
			return "<deep>", true
		}
		i.fmtDepth++
		r := call(i, fr, token.NoPos, f, []value{v})
		i.fmtDepth--
		if s, ok := r.(string); ok {
			return s, true
		}
		return "<sym-string>", true
	}
	return "", false
}

func (i *interpreter) nativeArgs(fr *frame, args []value) []interface{} {
	out := make([]interface{}, len(args))
	for k, a := range args {
		out[k] = i.goNative(fr, a, nil, 0)
	}
	return out
}

func (i *interpreter) sprintf(fr *frame, format value, args []value) string {
	f, ok := format.(string)
	if !ok {
		return "<sym-format>"
	}
	f = strings.ReplaceAll(f, "%w", "%v")
	return fmt.Sprintf(f, i.nativeArgs(fr, args)...)
}

func (i *interpreter) sprint(fr *frame, args []value, ln bool) string {
	if ln {
		return fmt.Sprintln(i.nativeArgs(fr, args)...)
	}
	return fmt.Sprint(i.nativeArgs(fr, args)...)
}

func intFprintf(fr *frame, a []value) value {
	// write the formatted string to the io.Writer
	s := fr.i.sprintf(fr, a[1], a[2].([]value))
	w := a[0].(iface)
	if w.t == nil {
		return tuple{0, iface{}}
	}
	return fr.i.writeString(fr, w, s)
}

func (i *interpreter) writeString(fr *frame, w iface, s string) value {
	ms := i.prog.MethodSets.MethodSet(w.t)
	sel := ms.Lookup(nil, "Write")
	if sel == nil {
		return tuple{len(s), iface{}}
	}
	f := i.prog.MethodValue(sel)
	bs := make([]value, len(s))
	for k := 0; k < len(s); k++ {
		bs[k] = s[k]
	}
	return call(i, fr, token.NoPos, f, []value{w.v, bs})
}

// newErrorString builds an *errors.errorString value.
func (i *interpreter) newErrorString(msg string) value {
	v := value(structure{msg})
	return iface{t: i.errorStringPtr, v: &v}
}

func intErrorf(fr *frame, a []value) value {
	i := fr.i
	msg := i.sprintf(fr, a[0], a[1].([]value))
	f, _ := a[0].(string)
	if strings.Contains(f, "%w") {
		// find the first error operand
		for _, arg := range a[1].([]value) {
			if e, ok := arg.(iface); ok && e.t != nil && types.Implements(e.t, errorIface) {
				if i.wrapErrorPtr != nil {
					v := value(structure{msg, e})
					return iface{t: i.wrapErrorPtr, v: &v}
				}
			}
		}
	}
	return i.newErrorString(msg)
}

var errorIface = types.Universe.Lookup("error").Type().Underlying().(*types.Interface)

// pinnedCall gives Any*/UF* their model values during a concrete
// re-execution.
func (i *interpreter) pinnedCall(fn *ssa.Function, name string, args []value) (value, bool) {
	px := i.px
	rt := func() types.Type { return fn.Signature.Results().At(0).Type() }
	parseU := func(s string) uint64 {
		if strings.HasPrefix(s, "-") {
			v, _ := strconv.ParseInt(s, 10, 64)
			return uint64(v)
		}
		u, _ := strconv.ParseUint(s, 10, 64)
		return u
	}
	switch {
	case strings.HasPrefix(name, "Any"):
		base := strArg(args[0])
		n := px.occ[base]
		px.occ[base] = n + 1
		vals := i.cfg.Pinned[base]
		txt := "0"
		if n < len(vals) {
			txt = vals[n]
		}
		switch name {
		case "AnyStringAtom":
			return string([]byte{1, byte('a' + parseU(txt))}), true
		case "AnyBool":
			return txt == "true", true
		case "AnyFloat64":
			return math.Float64frombits(parseU(txt)), true
		case "AnyFloat32":
			return math.Float32frombits(uint32(parseU(txt))), true
		case "AnyIntIn", "AnyIntMath":
			return int(parseU(txt)), true
		}
		return goTypeValue(rt(), parseU(txt)), true
	case strings.HasPrefix(name, "UF"):
		fnName := strArg(args[0])
		var key []string
		for _, a := range args[1].([]value) {
			key = append(key, strconv.FormatUint(asUint64Any(a), 10))
		}
		var ret string
	rows:
		for _, r := range i.cfg.PinnedUF[fnName] {
			if len(r) != len(key)+1 {
				continue
			}
			for k := range key {
				if r[k] != key[k] {
					continue rows
				}
			}
			ret = r[len(r)-1]
			break
		}
		switch name {
		case "UFBool":
			return ret == "true", true
		case "UFUint32":
			return uint32(parseU(ret)), true
		}
		return int64(parseU(ret)), true
	}
	return nil, false
}

func intFlagVar(fr *frame, a []value) value {
	*(a[0].(*value)) = a[2]
	return nil
}

func intFlagNew(fr *frame, a []value) value {
	v := a[1]
	return &v
}

func headerParts(v value) (uptr, int64, int64) {
	st := v.(structure)
	p, ok := st[0].(uptr)
	if !ok {
		panic(unsupported{fmt.Sprintf("slice header data %T", st[0])})
	}
	return p, asInt64(st[1]), asInt64(st[2])
}

func intTypedSliceCopy(fr *frame, a []value) value {
	dst, dl, _ := headerParts(a[1])
	src, sl, _ := headerParts(a[2])
	n := dl
	if sl < n {
		n = sl
	}
	if n < 0 {
		panic(wildDeref{"typedslicecopy with negative length"})
	}
	fr.i.memmove(dst, src, n, "typedslicecopy")
	return int(n)
}

func intTypedMemmove(fr *frame, a []value) value {
	fr.i.memmove(a[1].(uptr), a[2].(uptr), 1, "typedmemmove")
	return nil
}

func intZeroUnsafe(fr *frame, a []value) value {
	t := argType(a[0])
	p := a[1].(uptr)
	n := fr.i.concreteInt(a[2], 0, int64(fr.i.cfg.MaxAlloc), "zero.Unsafe n")
	if n == 0 {
		return nil
	}
	if p.cell != nil {
		if n != 1 {
			panic(wildDeref{"zero.Unsafe beyond a single cell"})
		}
		*p.cell = zero(t)
		return nil
	}
	idx, ok := fr.i.elemIndex(p, n)
	if !ok {
		panic(wildDeref{"zero.Unsafe outside the bounds of an object"})
	}
	if fr.i.sizeof(t) != p.esize {
		panic(unsupported{"zero.Unsafe element size mismatch"})
	}
	for k := int64(0); k < n; k++ {
		p.base[idx+k] = zero(t)
	}
	return nil
}

// intMurmur models the hash as an uninterpreted function of the bytes and
// the seed, so that results hold for any hash function.
func intMurmur(fr *frame, a []value) value {
	px := fr.i.px
	bs := a[0].([]value)
	var args []string
	var sorts []string
	for _, b := range bs {
		args = append(args, toSym(b, sym{kBV, 8, ""}).t)
		sorts = append(sorts, "(_ BitVec 8)")
	}
	args = append(args, toSym(a[1], sym{kBV, 32, ""}).t)
	sorts = append(sorts, "(_ BitVec 32)")
	key := "murmur/" + strconv.Itoa(len(bs))
	name, ok := px.ufDecl[key]
	if !ok {
		name = "uf_murmur3_" + strconv.Itoa(len(bs))
		px.ufDecl[key] = name
		px.emit("(declare-fun " + name + " (" + strings.Join(sorts, " ") + ") (_ BitVec 32))")
	}
	px.stubsUsed["murmur3.Sum32WithSeed => uninterpreted function of (bytes, seed)"] = true
	return px.mk(kBV, 32, "("+name+" "+strings.Join(args, " ")+")")
}

// intMaphash models hash/maphash.String/Bytes as an uninterpreted function of
// the (per-process) seed and the bytes.
func intMaphash(fr *frame, a []value) value {
	px := fr.i.px
	var bs []value
	switch x := a[1].(type) {
	case []value:
		bs = x
	case string:
		for k := 0; k < len(x); k++ {
			bs = append(bs, x[k])
		}
	case symstr:
		for k := 0; k < len(x.prefix); k++ {
			bs = append(bs, x.prefix[k])
		}
		bs = append(bs, uint8(1), px.mk(kBV, 8, "(bvadd "+x.id.t+" "+bvLit('a', 8)+")"))
	default:
		panic(unsupported{fmt.Sprintf("maphash of %T", a[1])})
	}
	seed := a[0].(structure)[0]
	args := []string{toSym(seed, sym{kBV, 64, ""}).t}
	sorts := []string{"(_ BitVec 64)"}
	for _, b := range bs {
		args = append(args, toSym(b, sym{kBV, 8, ""}).t)
		sorts = append(sorts, "(_ BitVec 8)")
	}
	key := "maphash/" + strconv.Itoa(len(bs))
	name, ok := px.ufDecl[key]
	if !ok {
		name = "uf_maphash_" + strconv.Itoa(len(bs))
		px.ufDecl[key] = name
		px.emit("(declare-fun " + name + " (" + strings.Join(sorts, " ") + ") (_ BitVec 64))")
	}
	px.stubsUsed["hash/maphash.String/Bytes => uninterpreted function of (seed, bytes)"] = true
	return px.mk(kBV, 64, "("+name+" "+strings.Join(args, " ")+")")
}

// errgroup, sequentially: Go runs the function at once and remembers the
// first error; Wait returns it.
func intErrgroupGo(fr *frame, a []value) value {
	k := lockKey(a[0])
	r := call(fr.i, fr, token.NoPos, a[1], nil)
	if e, ok := r.(iface); ok && e.t != nil {
		if _, seen := fr.i.egErrs[k]; !seen {
			fr.i.egErrs[k] = e
		}
	}
	return nil
}

func intErrgroupWait(fr *frame, a []value) value {
	k := lockKey(a[0])
	if e, ok := fr.i.egErrs[k]; ok {
		return e
	}
	return iface{}
}

func (i *interpreter) findAnon(fr *frame, name string) *ssa.Function {
	var pkg *ssa.Package
	for f := fr.caller; f != nil; f = f.caller {
		if f.fn.Pkg != nil {
			pkg = f.fn.Pkg
			break
		}
	}
	if pkg == nil {
		return nil
	}
	var found *ssa.Function
	var walk func(f *ssa.Function)
	walk = func(f *ssa.Function) {
		for _, a := range f.AnonFuncs {
			if a.Name() == name {
				found = a
			}
			walk(a)
		}
	}
	for _, m := range pkg.Members {
		if f, ok := m.(*ssa.Function); ok {
			walk(f)
		}
	}
	return found
}

func intCondSignal(fr *frame, a []value) value {
	if fr.i.condGen == nil {
		fr.i.condGen = map[*value]int{}
	}
	fr.i.condGen[lockKey(a[0])]++
	return nil
}

func intCondWait(fr *frame, a []value) value {
	i := fr.i
	if i.sched == nil {
		panic(unsupported{"sync.Cond.Wait would block (no goroutine scheduler)"})
	}
	if i.condGen == nil {
		i.condGen = map[*value]int{}
	}
	k := lockKey(a[0])
	// field L (a sync.Locker) of the Cond
	st := (*k).(structure)
	var L iface
	for _, f := range st {
		if x, ok := f.(iface); ok && x.t != nil {
			L = x
		}
	}
	callMethod := func(name string) {
		sel := i.prog.MethodSets.MethodSet(L.t).Lookup(nil, name)
		call(i, fr, token.NoPos, i.prog.MethodValue(sel), []value{L.v})
	}
	gen := i.condGen[k]
	callMethod("Unlock")
	i.sched.waitFor(func() bool { return i.condGen[k] != gen })
	callMethod("Lock")
	return nil
}

// Timers fire "at any time": the channel is ready as soon as the timer is
// set, and the (nondeterministic) select decides when it is observed.
func timerChan(fr *frame, t types.Type) (*value, *channel) {
	st := t.Underlying().(*types.Struct)
	v := zero(t)
	cell := &v
	for k := 0; k < st.NumFields(); k++ {
		if st.Field(k).Name() == "C" {
			ch := &channel{cap: 1, i: fr.i, timer: true}
			(*cell).(structure)[k] = ch
			return cell, ch
		}
	}
	panic("timer without C")
}

func timerC(tv value) *channel {
	st := (*(tv.(*value))).(structure)
	for _, f := range st {
		if ch, ok := f.(*channel); ok {
			return ch
		}
	}
	return nil
}

func intNewTimer(fr *frame, a []value) value {
	t := fr.fn.Signature.Results().At(0).Type().Underlying().(*types.Pointer).Elem()
	cell, ch := timerChan(fr, t)
	ch.buf = []value{zero(ch2elem(fr, t))}
	return cell
}

func ch2elem(fr *frame, t types.Type) types.Type {
	st := t.Underlying().(*types.Struct)
	for k := 0; k < st.NumFields(); k++ {
		if st.Field(k).Name() == "C" {
			return st.Field(k).Type().Underlying().(*types.Chan).Elem()
		}
	}
	panic("no C")
}

func intTimerStop(fr *frame, a []value) value {
	ch := timerC(a[0])
	// not yet observed: stopping succeeds and the pending tick is dropped
	if len(ch.buf) > 0 {
		ch.buf = nil
		return true
	}
	return true
}

func intTimerReset(fr *frame, a []value) value {
	ch := timerC(a[0])
	was := len(ch.buf) > 0
	t := fr.fn.Signature.Recv().Type().Underlying().(*types.Pointer).Elem()
	ch.buf = []value{zero(ch2elem(fr, t))}
	return was
}

func intNewTicker(fr *frame, a []value) value {
	t := fr.fn.Signature.Results().At(0).Type().Underlying().(*types.Pointer).Elem()
	cell, _ := timerChan(fr, t)
	return cell // never ticks
}
