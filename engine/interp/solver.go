package interp

// Resident SMT solver process (z3 -in / cvc5 --incremental) driven over a
// pipe with SMT-LIB2 text.

import (
	"bufio"
	"fmt"
	"io"
	"os"
	"os/exec"
	"sync/atomic"
	"strings"
	"time"
)

// debugging aid: SYMGO_DUMPSLOW=<ms> writes the script of slow queries to /tmp/slowq-<n>.smt2
var dumpSlowMs = func() int {
	n := 0
	fmt.Sscanf(os.Getenv("SYMGO_DUMPSLOW"), "%d", &n)
	return n
}()
var dumpSlowN int32

type solver struct {
	timeoutMs int
	script  func() string // current path's script, to restore state after a restart
	restarts int
	kind    string
	cmd     *exec.Cmd
	in      *bufio.Writer
	inRaw   io.WriteCloser
	out     *bufio.Reader
	queries int
	dur     time.Duration
	errs    []string
	dead    bool
}

// SolverKinds lists the supported back ends.
var SolverKinds = []string{"z3", "z3-new", "cvc5"}

func newSolver(kind string, timeoutMs int) (*solver, error) {
	var cmd *exec.Cmd
	switch kind {
	case "z3", "":
		kind = "z3"
		cmd = exec.Command("z3", "-in", fmt.Sprintf("-t:%d", timeoutMs))
	case "z3-new":
		cmd = exec.Command("z3-new", "-in", fmt.Sprintf("-t:%d", timeoutMs))
	case "cvc5":
		cmd = exec.Command("cvc5", "--incremental", "--lang=smt2", fmt.Sprintf("--tlimit-per=%d", timeoutMs), "--produce-models")
	case "cvc5-int":
		cmd = exec.Command("cvc5", "--incremental", "--lang=smt2", "--solve-bv-as-int=sum", fmt.Sprintf("--tlimit-per=%d", timeoutMs), "--produce-models")
	default:
		return nil, fmt.Errorf("unknown solver %q", kind)
	}
	in, err := cmd.StdinPipe()
	if err != nil {
		return nil, err
	}
	out, err := cmd.StdoutPipe()
	if err != nil {
		return nil, err
	}
	cmd.Stderr = cmd.Stdout
	if err := cmd.Start(); err != nil {
		return nil, err
	}
	s := &solver{kind: kind, timeoutMs: timeoutMs, cmd: cmd, in: bufio.NewWriterSize(in, 1<<16), inRaw: in, out: bufio.NewReaderSize(out, 1<<16)}
	s.send("(set-option :produce-models true)")
	if strings.HasPrefix(kind, "cvc5") {
		s.send("(set-logic ALL)")
	}
	return s, nil
}

func (s *solver) send(line string) {
	if s.dead {
		return
	}
	s.in.WriteString(line)
	s.in.WriteByte('\n')
}

func (s *solver) close() {
	if s.dead {
		return
	}
	s.dead = true
	s.in.WriteString("(exit)\n")
	s.in.Flush()
	s.inRaw.Close()
	done := make(chan struct{})
	go func() { s.cmd.Wait(); close(done) }()
	select {
	case <-done:
	case <-time.After(2 * time.Second):
		s.cmd.Process.Kill()
	}
}

func (s *solver) readLine() (string, error) {
	line, err := s.out.ReadString('\n')
	return strings.TrimSpace(line), err
}

// sync sends an echo marker and reads until it is seen; any "(error" line
// on the way is recorded. Used so that errors in definitions are noticed.
func (s *solver) checkSat(assumption string) string {
	if s.dead {
		return "error"
	}
	t0 := time.Now()
	if assumption == "" {
		s.send("(check-sat)")
	} else {
		s.send("(check-sat-assuming (" + assumption + "))")
	}
	s.in.Flush()
	res := "error"
	sawErr := false
	// hard timeout: the solver's own soft timeout is not always honoured.
	timedOut := false
	timer := time.AfterFunc(time.Duration(s.timeoutMs)*time.Millisecond*3/2+2*time.Second, func() {
		timedOut = true
		s.cmd.Process.Kill()
	})
	defer timer.Stop()
	for {
		line, err := s.readLine()
		if err != nil {
			if timedOut {
				timer.Stop()
				if s.restart() {
					s.queries++
					s.dur += time.Since(t0)
					return "unknown"
				}
			}
			s.errs = append(s.errs, "solver died: "+err.Error())
			s.dead = true
			return "error"
		}
		if line == "" {
			continue
		}
		if strings.HasPrefix(line, "(error") {
			s.errs = append(s.errs, line)
			sawErr = true
			continue
		}
		if line == "sat" || line == "unsat" || line == "unknown" || line == "timeout" {
			res = line
			break
		}
		// unexpected output
		s.errs = append(s.errs, "unexpected: "+line)
		sawErr = true
	}
	s.queries++
	s.dur += time.Since(t0)
	if dumpSlowMs > 0 && time.Since(t0) > time.Duration(dumpSlowMs)*time.Millisecond && s.script != nil {
		n := atomic.AddInt32(&dumpSlowN, 1)
		if n <= 20 {
			os.WriteFile(fmt.Sprintf("/tmp/slowq-%d.smt2", n), []byte(s.script()+"\n; "+res+" after "+time.Since(t0).String()+"\n(check-sat-assuming ("+assumption+"))\n"), 0o644)
		}
	}
	if sawErr {
		return "error"
	}
	if res == "timeout" {
		res = "unknown"
	}
	return res
}


// getValue returns the model value of a term as SMT-LIB text.
func (s *solver) getValue(term string) (string, bool) {
	if s.dead {
		return "", false
	}
	s.send("(get-value (" + term + "))")
	s.in.Flush()
	var sb strings.Builder
	depth := 0
	started := false
	for {
		line, err := s.readLine()
		if err != nil {
			s.dead = true
			return "", false
		}
		if strings.HasPrefix(line, "(error") {
			s.errs = append(s.errs, line)
			return "", false
		}
		sb.WriteString(line)
		sb.WriteByte(' ')
		for _, c := range line {
			if c == '(' {
				depth++
				started = true
			} else if c == ')' {
				depth--
			}
		}
		if started && depth <= 0 {
			break
		}
	}
	txt := strings.TrimSpace(sb.String())
	// ((term value))
	txt = strings.TrimPrefix(txt, "((")
	txt = strings.TrimSuffix(txt, "))")
	// strip the echoed term
	if strings.HasPrefix(txt, term) {
		txt = strings.TrimSpace(txt[len(term):])
	} else if i := strings.LastIndex(txt, " "); i >= 0 && !strings.HasSuffix(txt, ")") {
		txt = txt[i+1:]
	}
	return txt, true
}

// restart replaces a killed solver process by a fresh one and replays the
// current path's script into it.
func (s *solver) restart() bool {
	s.cmd.Wait()
	n, err := newSolver(s.kind, s.timeoutMs)
	if err != nil {
		return false
	}
	s.cmd, s.in, s.inRaw, s.out = n.cmd, n.in, n.inRaw, n.out
	s.restarts++
	s.send("(push 1)")
	if s.script != nil {
		s.in.WriteString(s.script())
	}
	return true
}
