#!/usr/bin/env python3
# Regenerates MANIFEST.json from checks/*.json and manifest_meta.json.
import json, glob, os
meta = json.load(open('manifest_meta.json'))
checks = []
claimed = set()
for path in sorted(glob.glob('checks/C*.json')):
    spec = json.load(open(path))
    pid = spec['property']
    m = meta['checks'].get(pid)
    if not m or not m.get('claimed', True):
        continue
    claimed.add(pid)
    c = {
        "property_id": pid,
        "quick_cmd": "./check %s quick" % pid,
        "evidence_file": "/verif/evidence/%s.json" % pid,
        "replay_cmd_template": "VERIF_REPLAY={path} ./check %s quick" % pid,
        "engine": "symgo",
        "level_claimed": {"category": "other", "text": m['level_text'], "design_ref": m.get('design_ref', 'DESIGN.md §4 ' + pid)},
        "level_note": m['level_note'],
        "technique": m.get('technique', "bounded symbolic execution of the real Go code (go/ssa -> SMT-LIB2, z3), counterexamples replayed natively"),
    }
    if any('thorough' in h.get('tiers', ['quick', 'thorough']) for h in spec['harnesses']):
        c["thorough_cmd"] = "./check %s thorough" % pid
    checks.append(c)
na = [x for x in meta['not_applicable'] if x['property_id'] not in claimed]
man = {
    "version": 1,
    "setup_cmd": "cd /verif/engine && GOFLAGS=-mod=mod GOPROXY=off GOSUMDB=off GOTOOLCHAIN=local go build -o /verif/bin/symgo ./cmd/symgo",
    "hooks": {
        "guard": "verif",
        "enable": "harness files (//go:build verif) and the zzverif support package are injected by build overlay (-overlay / packages.Config.Overlay) with -tags verif; nothing is committed to /repo",
        "baseline_off_cmd": meta['baseline_off_cmd'],
        "source_commits": [],
        "add_only": True,
    },
    "engines": [{"name": "symgo", "path": "/verif/engine", "serves_properties": sorted(claimed),
                 "kind_free_text": "symbolic interpreter for go/ssa (fork of x/tools ssa/interp) emitting SMT-LIB2 to a resident z3; replay-based DFS over decision vectors; native replay of counterexamples"}],
    "checks": checks,
    "not_applicable": na,
    "notes": meta.get('notes', ''),
}
json.dump(man, open('MANIFEST.json', 'w'), indent=1)
print("claimed:", sorted(claimed), "n/a:", [x['property_id'] for x in na])
