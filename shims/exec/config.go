package exec
