package retry

// MaxRetries is a shim for the newer grailbio/base API.
func MaxRetries(policy Policy, n int) Policy { return MaxTries(policy, n+1) }
