package errors

import "context"

// CleanUp is a shim for the newer grailbio/base API: call cleanUp and keep
// the first error in *dst.
func CleanUp(cleanUp func() error, dst *error) {
	if err := cleanUp(); err != nil && *dst == nil {
		*dst = err
	}
}

// CleanUpCtx is CleanUp for clean-up functions taking a context.
func CleanUpCtx(ctx context.Context, cleanUp func(context.Context) error, dst *error) {
	if err := cleanUp(ctx); err != nil && *dst == nil {
		*dst = err
	}
}
