package limitbuf

// LoggerOption is a shim for the newer grailbio/base API (options are
// ignored; they only affect logging).
type LoggerOption func(*Logger)

// LogIfTruncatingMaxMultiple is accepted and ignored.
func LogIfTruncatingMaxMultiple(m float64) LoggerOption { return func(*Logger) {} }
