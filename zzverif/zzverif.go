// Package zzverif is the harness support library of /verif. It is injected
// into the repository by build overlay (never committed there).
//
// Under the symbolic engine (symgo) every function below is intercepted by
// name and given its symbolic meaning. The bodies in this file are the
// *native* meaning used when a counterexample is replayed against the real
// build: Any* read the solver's model from the file named by VERIF_REPLAY,
// Assert records a failure, and so on.
package zzverif

import (
	"encoding/json"
	"fmt"
	"math"
	"os"
	"strconv"
	"sync"
)

// Replay is the file format written by the engine for a counterexample.
type Replay struct {
	Property string              `json:"property"`
	Harness  string              `json:"harness"`
	Label    string              `json:"label"`
	Kind     string              `json:"kind"`
	Inputs   map[string][]string `json:"inputs"` // name -> values in call order (decimal or bool)
	UF       map[string][]UFRow  `json:"uf"`
	Trace    []string            `json:"trace,omitempty"`
	Note     string              `json:"note,omitempty"`
}

// UFRow is one point of an uninterpreted function's model.
type UFRow struct {
	Args []string `json:"args"`
	Ret  string   `json:"ret"`
}

var (
	mu       sync.Mutex
	loaded   bool
	replay   Replay
	cursor   = map[string]int{}
	Failures []string
	Reached  = map[string]bool{}
	// Diverged is set when the native run leaves the path the model
	// describes (an Assume fails or an input is missing).
	Diverged string
)

// Stop is the panic value used to end a native replay at the first failed
// assertion.
type Stop struct{ Label string }

func load() {
	if loaded {
		return
	}
	loaded = true
	path := os.Getenv("VERIF_REPLAY")
	if path == "" {
		return
	}
	b, err := os.ReadFile(path)
	if err != nil {
		panic("zzverif: " + err.Error())
	}
	if err := json.Unmarshal(b, &replay); err != nil {
		panic("zzverif: " + err.Error())
	}
}

// ResetReplay rewinds the native replay state.
func ResetReplay() {
	mu.Lock()
	defer mu.Unlock()
	cursor = map[string]int{}
	Failures = nil
	Reached = map[string]bool{}
	Diverged = ""
}

// ReplayInfo returns the loaded replay description.
func ReplayInfo() Replay { mu.Lock(); defer mu.Unlock(); load(); return replay }

func next(name string) (string, bool) {
	mu.Lock()
	defer mu.Unlock()
	load()
	vs := replay.Inputs[name]
	i := cursor[name]
	cursor[name] = i + 1
	if i >= len(vs) {
		return "", false
	}
	return vs[i], true
}

func nextInt(name string) int64 {
	s, ok := next(name)
	if !ok {
		return 0
	}
	if v, err := strconv.ParseInt(s, 10, 64); err == nil {
		return v
	}
	if v, err := strconv.ParseUint(s, 10, 64); err == nil {
		return int64(v)
	}
	panic("zzverif: bad integer " + s + " for " + name)
}

func AnyInt(name string) int       { return int(nextInt(name)) }
func AnyInt64(name string) int64   { return nextInt(name) }
func AnyInt32(name string) int32   { return int32(nextInt(name)) }
func AnyInt16(name string) int16   { return int16(nextInt(name)) }
func AnyInt8(name string) int8     { return int8(nextInt(name)) }
func AnyUint(name string) uint     { return uint(nextInt(name)) }
func AnyUint64(name string) uint64 { return uint64(nextInt(name)) }
func AnyUint32(name string) uint32 { return uint32(nextInt(name)) }
func AnyUint16(name string) uint16 { return uint16(nextInt(name)) }
func AnyUint8(name string) uint8   { return uint8(nextInt(name)) }
func AnyUintptr(name string) uintptr { return uintptr(nextInt(name)) }

// AnyIntMath is an int that the engine encodes as a mathematical integer
// (int-mode): every arithmetic result on it carries a "fits in int64"
// obligation.
func AnyIntMath(name string) int { return int(nextInt(name)) }

func AnyBool(name string) bool {
	s, ok := next(name)
	return ok && (s == "true" || s == "1")
}

// AnyFloat64 is an arbitrary float64 (the replay stores its IEEE bits).
func AnyFloat64(name string) float64 { return math.Float64frombits(uint64(nextInt(name))) }
func AnyFloat32(name string) float32 { return math.Float32frombits(uint32(nextInt(name))) }

// AnyIntIn returns an arbitrary int in [lo, hi]; the engine case-splits so
// that the result is concrete on each path.
func AnyIntIn(name string, lo, hi int) int {
	v := int(nextInt(name))
	if v < lo || v > hi {
		diverge("AnyIntIn " + name + " out of range")
	}
	return v
}

func diverge(why string) {
	mu.Lock()
	if Diverged == "" {
		Diverged = why
	}
	mu.Unlock()
	panic(Stop{"diverged: " + why})
}

// Assume restricts the explored inputs.
func Assume(c bool) {
	if !c {
		diverge("assumption false in native replay")
	}
}

// Assert states the property.
func Assert(c bool, label string) {
	if !c {
		mu.Lock()
		Failures = append(Failures, label)
		mu.Unlock()
		panic(Stop{label})
	}
}

// Reach records that a region of interest was reached (vacuity guard).
func Reach(label string) { mu.Lock(); Reached[label] = true; mu.Unlock() }

// NewProcess marks the start of a fresh OS process: under the engine all
// package-level state is reset, package initialisers run again and per-process
// random sources yield new arbitrary values. Natively it does nothing (one
// process cannot observe another's randomness).
func NewProcess() {}

// MayPanic declares that a Go panic escaping the harness after this point
// is an accepted outcome (label says why).
func MayPanic(label string) {}

// NoPanic ends the effect of MayPanic.
func NoPanic() {}

// Term builders: evaluated without forking by the engine.
func And(a, b bool) bool     { return a && b }
func Or(a, b bool) bool      { return a || b }
func Not(a bool) bool        { return !a }
func Implies(a, b bool) bool { return !a || b }
func IteInt(c bool, a, b int) int {
	if c {
		return a
	}
	return b
}
func IteInt64(c bool, a, b int64) int64 {
	if c {
		return a
	}
	return b
}
func IteBool(c bool, a, b bool) bool {
	if c {
		return a
	}
	return b
}

// Concrete case-splits x (engine) so that it is a concrete value on each
// path; natively the identity.
func Concrete(x int) int { return x }

// IsSymbolic reports whether x is a solver term (engine only).
func IsSymbolic(x interface{}) bool { return false }

func ufLookup(name string, args []string) (string, bool) {
	mu.Lock()
	defer mu.Unlock()
	load()
rows:
	for _, r := range replay.UF[name] {
		if len(r.Args) != len(args) {
			continue
		}
		for i := range args {
			if r.Args[i] != args[i] {
				continue rows
			}
		}
		return r.Ret, true
	}
	return "", false
}

func ufInt(name string, args []int64) int64 {
	as := make([]string, len(args))
	for i, a := range args {
		as[i] = strconv.FormatUint(uint64(a), 10)
	}
	s, ok := ufLookup(name, as)
	if !ok {
		return 0
	}
	v, err := strconv.ParseInt(s, 10, 64)
	if err != nil {
		u, err2 := strconv.ParseUint(s, 10, 64)
		if err2 != nil {
			panic("zzverif: bad UF value " + s)
		}
		v = int64(u)
	}
	return v
}

// UFInt64 is an uninterpreted function int64^k -> int64.
func UFInt64(name string, args ...int64) int64 { return ufInt(name, args) }

// UFUint32 is an uninterpreted function int64^k -> uint32.
func UFUint32(name string, args ...int64) uint32 { return uint32(ufInt(name, args)) }

// UFBool is an uninterpreted predicate.
func UFBool(name string, args ...int64) bool { return ufInt(name, args) != 0 }

// Unsupported aborts the path as inconclusive.
func Unsupported(why string) { panic("zzverif: unsupported: " + why) }

// Logf prints a debugging line (engine: with concrete args only).
func Logf(format string, args ...interface{}) { fmt.Fprintf(os.Stderr, format+"\n", args...) }

// RunNative runs harness fn natively under the loaded replay and reports
// the labels of failed assertions, a panic that escaped (if any), and
// whether the run diverged from the model.
func RunNative(fn func()) (failures []string, escaped interface{}, diverged string) {
	ResetReplay()
	func() {
		defer func() {
			if r := recover(); r != nil {
				if _, ok := r.(Stop); ok {
					return
				}
				escaped = r
			}
		}()
		fn()
	}()
	mu.Lock()
	defer mu.Unlock()
	return append([]string(nil), Failures...), escaped, Diverged
}

// AnyStringAtom is an arbitrary string out of an alphabet of k opaque atoms
// (none of which starts with "+ " or "- " or occurs in concrete strings).
func AnyStringAtom(name string, k int) string {
	id := nextInt(name)
	return string([]byte{1, byte('a' + id)})
}

// Iff is logical equivalence (term builder).
func Iff(a, b bool) bool { return a == b }

// CallAnon runs an anonymous function of the package under test as a unit
// (engine only: there is no native way to reach a closure body).
func CallAnon(name string, freeVars []interface{}, args ...interface{}) {
	panic("zzverif: CallAnon is engine-only")
}
